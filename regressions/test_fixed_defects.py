"""Plain unit tests replaying, without any explorer, the minimal failing inputs of the genuine defects
that the checks found on the pinned tree (DESIGN.md 11.2).  Each test fails on the tree before the
corresponding `fix:` commit and passes after it.  Run: /venv/bin/python -m pytest /verif/regressions -q
"""
import numpy as np
import pandas as pd
import pytest

from pyins import filters, measurements, strapdown, error_model
from pyins.util import TRAJECTORY_COLS

INC_COLS = ['dt', 'theta_x', 'theta_y', 'theta_z', 'dv_x', 'dv_y', 'dv_z']


def _data(n=3, dt=1.0):
    t = np.arange(n + 1) * dt
    inc = pd.DataFrame(np.column_stack([np.full(n, dt), np.full((n, 3), 1e-3) * dt,
                                        np.tile([0.1, -0.1, -9.81], (n, 1)) * dt]), index=t[1:], columns=INC_COLS)
    pva = pd.Series([-33.5, 151.25, 120.0, 4.0, -3.0, 0.0, 2.0, -3.0, 130.0], index=TRAJECTORY_COLS, name=0.0)
    traj = strapdown.Integrator(pva).integrate(inc)
    return t, inc, pva, traj


def _pos(traj, times):
    rows = [traj.iloc[0][['lat', 'lon', 'alt']].values] * len(times)
    return measurements.Position(pd.DataFrame(rows, index=times, columns=['lat', 'lon', 'alt']), 2.0)


@pytest.mark.parametrize('meas', [None, []])
def test_defaults_accepted(meas):                      # fix 060ff6c (C09, C10)
    t, inc, pva, traj = _data()
    filters.run_feedback_filter(pva, 5, .5, .5, 1, inc, measurements=meas, time_step=1.5)
    filters.run_feedforward_filter(traj, traj, 5, .5, .5, 1, measurements=meas, time_step=1.5)


def test_feedback_clustered_epochs():                  # fix 1d5b2bb (C09)
    t, inc, pva, traj = _data()
    res = filters.run_feedback_filter(pva, 5, .5, .5, 1, inc, measurements=[_pos(traj, [1.25, 1.5, 2.25, 2.5, 2.75])],
                                      time_step=1.0)
    assert list(res.trajectory.index) == list(t)
    assert list(res.innovations['Position'].index) == [1.25, 1.5, 2.25, 2.5, 2.75]


def test_feedforward_clustered_epochs():               # fix f5ee578 (C10)
    t, inc, pva, traj = _data()
    res = filters.run_feedforward_filter(traj, traj, 5, .5, .5, 1, measurements=[_pos(traj, [0.25, 0.5])],
                                         time_step=1.0)
    assert (np.diff(res.trajectory.index) > 0).all()
    assert len(res.innovations['Position']) == 2


def test_feedforward_terminates_when_step_not_above_gap():   # fix 2491910 (C10)
    import signal

    def boom(*a):
        raise TimeoutError('run_feedforward_filter did not terminate')
    t, inc, pva, traj = _data(5, 0.1)
    signal.signal(signal.SIGALRM, boom)
    signal.alarm(20)
    try:
        res = filters.run_feedforward_filter(traj, traj, 5, .5, .5, 1, time_step=0.1)
    finally:
        signal.alarm(0)
    assert (np.diff(res.trajectory.index) > 0).all()


def test_2d_set_pva_with_vertical_velocity():          # fix 52c5177 (C13, C02)
    t, inc, pva, traj = _data()
    it = strapdown.Integrator(pva, with_altitude=False)
    p = pva.copy()
    p['alt'], p['VD'] = 820.0, 3.0
    it.set_pva(p)
    it.integrate(inc.iloc[:1])
    assert it.trajectory['alt'].iloc[-1] == 820.0 and it.trajectory['VD'].iloc[-1] == 0.0


def test_increment_coning_with_unequal_intervals():    # fix 56da0cb (C15)
    a, b = np.array([1.0, -2.0, 0.5]), np.array([6.0, 8.0, -12.0])
    errs = []
    for T in (0.02, 0.01):
        t = 0.3 + np.concatenate([[0], np.cumsum([0.7, 1.3, 0.7, 1.3])]) * T
        tp = np.concatenate([[t[0] - (t[1] - t[0])], t[:-1]])
        g = np.array([a * (y - x) + b * (y * y - x * x) / 2 for x, y in zip(tp, t)])
        imu = pd.DataFrame(np.hstack([g, np.zeros_like(g)]), index=t,
                           columns=['gyro_x', 'gyro_y', 'gyro_z', 'accel_x', 'accel_y', 'accel_z'])
        inc = strapdown.compute_increments_from_imu(imu, 'increment')
        k = 2
        t0, t1 = t[k - 1], t[k]
        w0 = a + b * t0
        exact = w0 * (t1 - t0) + b * (t1 - t0) ** 2 / 2 + np.cross(w0, b) * (t1 - t0) ** 3 / 12
        cubic = np.abs(np.cross(w0, b)).max() * (t1 - t0) ** 3 / 12
        errs.append(np.abs(inc.iloc[k - 1, 1:4].values - exact).max() / cubic)
    # exact through the cubic (coning) term: the remaining error is far below the cubic term itself
    assert max(errs) < 0.05


def test_ned_velocity_jacobian_has_lever_arm():        # fix fd15b23 (C06)
    pva = pd.Series([10.0, 20.0, 100.0, 30.0, -40.0, 5.0, 100.0, -35.0, 179.0, 0.3, -0.5, 0.8],
                    index=TRAJECTORY_COLS + ['rate_x', 'rate_y', 'rate_z'], name=1.0)
    df = pd.DataFrame([[30.0, -40.0, 5.0]], index=[1.0], columns=['VN', 'VE', 'VD'])
    em = error_model.InsErrorModel()
    lever = np.array([2.0, -1.0, 0.5])
    _, H, _ = measurements.NedVelocity(df, 0.1, imu_to_antenna_b=lever).compute_matrices(1.0, pva, em)
    assert np.abs(H - em.ned_velocity_error_jacobian(pva, lever)).max() == 0
    assert np.abs(H - em.ned_velocity_error_jacobian(pva)).max() > 0.1

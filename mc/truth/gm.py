"""One-shot (non-recursive) Gauss-Markov estimator for a time-varying linear system on a grid.

    x_0 ~ N(0, P0),   x_{k+1} = Phi_k x_k + w_k,  w_k ~ N(0, Qd_k),
    z_a = H_a x_{k(a)} + v_a,  v_a ~ N(0, R_a)      (observations in processing order)

Everything is computed from the unrolled joint covariance: Cov(x_i, x_j) = Phi(i<-j) P_j for
i >= j with P_j the prior (no-measurement) covariance; C_zz the stacked observation covariance;
x^_k = C_xz C_zz^-1 z and P_k = P_k^- - C_xz C_zz^-1 C_zx using only observations with grid index
<= k; whitened innovations = blocks of L^-1 z with L the lower Cholesky factor of C_zz (by
uniqueness of the block Cholesky factorisation these equal the sequentially whitened innovations).
No recursion over measurements is used.
"""
import numpy as np


def solve(P0, Phis, Qds, obs):
    """obs: list of (k, z, H, R) in processing order (k non-decreasing).
    Returns xhat (K, n), Phat (K, n, n), list of whitened innovation vectors."""
    n = len(P0)
    K = len(Phis) + 1
    Pk = [np.asarray(P0, dtype=float)]
    for k in range(1, K):
        Pk.append(Phis[k - 1] @ Pk[-1] @ Phis[k - 1].T + Qds[k - 1])
    # transition products trans[(k, j)] = Phi(k <- j), k >= j, built lazily
    cache = {}

    def trans(k, j):
        if k == j:
            return np.eye(n)
        key = (k, j)
        if key not in cache:
            cache[key] = Phis[k - 1] @ trans(k - 1, j)
        return cache[key]

    def cov(i, j):
        if i >= j:
            return trans(i, j) @ Pk[j]
        return Pk[i] @ trans(j, i).T

    xhat = np.zeros((K, n))
    Phat = np.array(Pk)
    if not obs:
        return xhat, Phat, [], 1.0
    ks = [o[0] for o in obs]
    assert all(b >= a for a, b in zip(ks[:-1], ks[1:])), 'observations must be in processing order'
    Hs = [np.asarray(o[2], dtype=float) for o in obs]
    zs = np.hstack([np.asarray(o[1], dtype=float) for o in obs])
    sizes = [len(o[1]) for o in obs]
    offs = np.cumsum([0] + sizes)
    M = offs[-1]
    Czz = np.zeros((M, M))
    for a in range(len(obs)):
        for b in range(a, len(obs)):
            blk = Hs[a] @ cov(ks[a], ks[b]) @ Hs[b].T
            if a == b:
                blk = blk + np.asarray(obs[a][3], dtype=float)
            Czz[offs[a]:offs[a + 1], offs[b]:offs[b + 1]] = blk
            if a != b:
                Czz[offs[b]:offs[b + 1], offs[a]:offs[a + 1]] = blk.T
    for k in range(K):
        sel = [a for a in range(len(obs)) if ks[a] <= k]
        if not sel:
            continue
        m = offs[sel[-1] + 1]
        Cxz = np.hstack([cov(k, ks[a]) @ Hs[a].T for a in sel])
        W = np.linalg.solve(Czz[:m, :m], Cxz.T).T
        xhat[k] = W @ zs[:m]
        Phat[k] = Pk[k] - W @ Cxz.T
    L = np.linalg.cholesky(Czz)
    w = np.linalg.solve(L, zs) if M else zs
    # triangular solve via general solve is fine here (L is well conditioned relative to Czz)
    inn = [w[offs[a]:offs[a + 1]] for a in range(len(obs))]
    return xhat, Phat, inn, np.linalg.cond(Czz)


def recursive_reference(P0, Phis, Qds, obs):
    """Textbook recursive filter (used only by the self test)."""
    n = len(P0)
    K = len(Phis) + 1
    x = np.zeros(n)
    P = np.asarray(P0, dtype=float)
    xs, Ps, inns = [], [], []
    oi = 0
    for k in range(K):
        while oi < len(obs) and obs[oi][0] == k:
            _, z, H, R = obs[oi]
            S = H @ P @ H.T + R
            Kg = np.linalg.solve(S, H @ P).T
            e = z - H @ x
            x = x + Kg @ e
            P = (np.eye(n) - Kg @ H) @ P
            inns.append(np.linalg.solve(np.linalg.cholesky(S), e))
            oi += 1
        xs.append(x.copy())
        Ps.append(P.copy())
        if k < K - 1:
            x = Phis[k] @ x
            P = Phis[k] @ P @ Phis[k].T + Qds[k]
    return np.array(xs), np.array(Ps), inns


def self_test():
    # structured (random-free) system: rotating 3-state, time-varying transitions
    n, K = 3, 6
    Phis, Qds = [], []
    for k in range(K - 1):
        a = 0.3 + 0.1 * k
        Phis.append(np.array([[np.cos(a), -np.sin(a), 0.1 * k], [np.sin(a), np.cos(a), 0.0], [0.0, 0.05, 0.9]]))
        Qds.append(np.diag([0.1 + 0.01 * k, 0.05, 0.02]))
    P0 = np.array([[2.0, 0.3, 0.0], [0.3, 1.0, 0.1], [0.0, 0.1, 0.5]])
    obs = [(0, np.array([0.5]), np.array([[1.0, 0.0, 0.5]]), np.array([[0.2]])),
           (2, np.array([-0.3, 0.8]), np.array([[0.0, 1.0, 0.0], [1.0, 1.0, 0.0]]), np.array([[0.1, 0.02], [0.02, 0.3]])),
           (2, np.array([0.1]), np.array([[0.0, 0.0, 1.0]]), np.array([[0.05]])),
           (5, np.array([1.2]), np.array([[1.0, -1.0, 0.0]]), np.array([[0.4]]))]
    xh, Ph, inn, _ = solve(P0, Phis, Qds, obs)
    xr, Pr, ir = recursive_reference(P0, Phis, Qds, obs)
    assert np.abs(xh - xr).max() < 1e-12 and np.abs(Ph - Pr).max() < 1e-12
    for a, b in zip(inn, ir):
        assert np.abs(a - b).max() < 1e-12

"""Independent linear algebra for the Kalman checks (reference model, not pyins/scipy code).

* exact linear-Gaussian posterior in rational arithmetic (floats are exact rationals);
* lower Cholesky factor and triangular solve in extended precision;
* matrix exponential by scaling-and-squaring Taylor series in extended precision;
* process-noise integral  int_0^T e^{Fs} Q e^{F's} ds  by composite Gauss-Legendre.
"""
from fractions import Fraction

import numpy as np

LD = np.longdouble


# ------------------------------------------------------------------------- rational
def to_frac(a):
    a = np.asarray(a, dtype=float)
    if a.ndim == 1:
        return [Fraction(float(x)) for x in a]
    return [[Fraction(float(x)) for x in row] for row in a]


def f_matmul(a, b):
    n, k, m = len(a), len(b), len(b[0])
    return [[sum((a[i][l] * b[l][j] for l in range(k)), Fraction(0)) for j in range(m)] for i in range(n)]


def f_matvec(a, x):
    return [sum((a[i][l] * x[l] for l in range(len(x))), Fraction(0)) for i in range(len(a))]


def f_transpose(a):
    return [list(r) for r in zip(*a)]


def f_solve(s, b):
    """Solve S X = B (S m x m nonsingular) by fraction Gaussian elimination; B is m x k."""
    m = len(s)
    a = [list(s[i]) + list(b[i]) for i in range(m)]
    for c in range(m):
        piv = next(r for r in range(c, m) if a[r][c] != 0)
        a[c], a[piv] = a[piv], a[c]
        inv = 1 / a[c][c]
        a[c] = [v * inv for v in a[c]]
        for r in range(m):
            if r != c and a[r][c] != 0:
                f = a[r][c]
                a[r] = [vr - f * vc for vr, vc in zip(a[r], a[c])]
    return [row[m:] for row in a]


def exact_posterior(x, P, z, H, R):
    """Exact conditional mean / covariance of x given z = Hx + v, v ~ N(0, R), prior N(x, P).
    Returns float arrays (rounded once from the exact rationals) and the exact gain."""
    xf, Pf, zf, Hf, Rf = to_frac(x), to_frac(P), to_frac(z), to_frac(H), to_frac(R)
    Ht = f_transpose(Hf)
    PHt = f_matmul(Pf, Ht)                       # n x m
    S = f_matmul(Hf, PHt)
    S = [[S[i][j] + Rf[i][j] for j in range(len(S))] for i in range(len(S))]
    e = [zi - hi for zi, hi in zip(zf, f_matvec(Hf, xf))]
    HP = f_transpose(PHt)                        # (P symmetric is NOT assumed: use H P explicitly)
    HP = f_matmul(Hf, Pf)
    SinvHP = f_solve(S, HP)                      # m x n
    Sinve = f_solve(S, [[v] for v in e])
    xp = [xi + sum(PHt[i][k] * Sinve[k][0] for k in range(len(e))) for i, xi in enumerate(xf)]
    PHtSinvHP = f_matmul(PHt, SinvHP)
    Pp = [[Pf[i][j] - PHtSinvHP[i][j] for j in range(len(Pf))] for i in range(len(Pf))]
    K = f_transpose(f_solve(S, f_transpose(PHt)))   # K = P H' S^-1 (S symmetric up to exactness of inputs)
    chi2 = sum(e[k] * Sinve[k][0] for k in range(len(e)))
    tofl = lambda m_: np.array([[float(v) for v in r] for r in m_])  # noqa
    return (np.array([float(v) for v in xp]), tofl(Pp), tofl(K), tofl(S), np.array([float(v) for v in e]),
            float(chi2))


# ------------------------------------------------------------------------- extended precision
def cholesky_lower_ld(s):
    s = np.asarray(s, dtype=LD)
    n = len(s)
    l = np.zeros((n, n), dtype=LD)
    for i in range(n):
        for j in range(i + 1):
            acc = s[i, j] - (l[i, :j] * l[j, :j]).sum()
            if i == j:
                if acc <= 0:
                    raise np.linalg.LinAlgError('not positive definite')
                l[i, i] = np.sqrt(acc)
            else:
                l[i, j] = acc / l[j, j]
    return l


def solve_lower_ld(l, b):
    l = np.asarray(l, dtype=LD)
    b = np.asarray(b, dtype=LD)
    x = np.zeros_like(b)
    for i in range(len(b)):
        x[i] = (b[i] - (l[i, :i] * x[:i]).sum()) / l[i, i]
    return x


def expm_ld(a):
    """Matrix exponential, scaling and squaring with a Taylor series, extended precision."""
    a = np.asarray(a, dtype=LD)
    n = len(a)
    nrm = float(np.abs(a).sum(axis=1).max()) if n else 0.0
    sq = 0
    while nrm > 0.25:
        nrm /= 2
        sq += 1
    a = a / LD(2 ** sq)
    out = np.eye(n, dtype=LD)
    term = np.eye(n, dtype=LD)
    for i in range(1, 30):
        term = term @ a / LD(i)
        out = out + term
        if float(np.abs(term).max()) < 1e-25 * max(1.0, float(np.abs(out).max())):
            break
    for _ in range(sq):
        out = out @ out
    return out


_GLX, _GLW = np.polynomial.legendre.leggauss(10)


def noise_integral(F, Q, T):
    """(Phi, Qd, kappa): e^{FT}, int_0^T e^{Fs} Q e^{F's} ds and the measured conditioning
    kappa = max_s ||e^{Fs}|| ||e^{-Fs}|| of the problem."""
    F = np.asarray(F, dtype=LD)
    Q = np.asarray(Q, dtype=LD)
    n = len(F)
    if T == 0:
        return np.eye(n), np.zeros((n, n)), 1.0
    nrm = float(np.abs(F).sum(axis=1).max())
    nsub = max(1, int(np.ceil(nrm * T / 0.5)))
    h = LD(T) / nsub
    Eh = expm_ld(F * h)
    base = np.zeros((n, n), dtype=LD)
    # int_0^h e^{F(h-u)} Q e^{F'(h-u)} du  on one sub-interval (propagated to its end)
    for x, w in zip(_GLX, _GLW):
        u = LD(0.5) * h * LD(x + 1)
        E = expm_ld(F * (h - u))
        base = base + LD(0.5) * h * LD(w) * (E @ Q @ E.T)
    Qd = np.zeros((n, n), dtype=LD)
    Phi = np.eye(n, dtype=LD)
    kappa = 1.0
    Em = expm_ld(-F * h)
    Pinv = np.eye(n, dtype=LD)
    for _ in range(nsub):
        Qd = Eh @ Qd @ Eh.T + base
        Phi = Eh @ Phi
        Pinv = Pinv @ Em
        kappa = max(kappa, float(np.abs(Phi).sum(axis=1).max()) * float(np.abs(Pinv).sum(axis=1).max()))
    return np.asarray(Phi, dtype=float), np.asarray(Qd, dtype=float), kappa


def dct_basis(n):
    """Orthogonal DCT-II basis (deterministic dense orthogonal matrix)."""
    k = np.arange(n)[:, None]
    i = np.arange(n)[None, :]
    q = np.cos(np.pi * (i + 0.5) * k / n) * np.sqrt(2.0 / n)
    q[0] /= np.sqrt(2.0)
    return q


def self_test():
    # rational posterior against the information form on a well-conditioned case
    n, m = 4, 2
    q = dct_basis(n)
    P = q @ np.diag([4.0, 2.0, 1.0, 0.5]) @ q.T
    P = (P + P.T) / 2
    H = np.array([[1.0, 0.5, 0.0, -1.0], [0.0, 2.0, 1.0, 0.25]])
    R = np.array([[2.0, 0.5], [0.5, 1.0]])
    x = np.array([1.0, -2.0, 0.5, 3.0])
    z = np.array([0.3, -1.2])
    xp, Pp, K, S, e, chi2 = exact_posterior(x, P, z, H, R)
    Pi = np.linalg.inv(np.linalg.inv(P) + H.T @ np.linalg.inv(R) @ H)
    xi = Pi @ (np.linalg.inv(P) @ x + H.T @ np.linalg.inv(R) @ z)
    assert np.abs(Pp - Pi).max() < 1e-13 and np.abs(xp - xi).max() < 1e-13
    L = cholesky_lower_ld(S)
    assert np.abs(np.asarray(L @ L.T, dtype=float) - S).max() < 1e-15
    w = solve_lower_ld(L, e)
    assert abs(float((w * w).sum()) - chi2) < 1e-13
    # exponential against closed forms: nilpotent, skew, diagonal
    N = np.array([[0.0, 1.0, 0.0], [0.0, 0.0, 1.0], [0.0, 0.0, 0.0]])
    E = np.asarray(expm_ld(N * 2.0), dtype=float)
    assert np.abs(E - np.array([[1, 2, 2], [0, 1, 2], [0, 0, 1.0]])).max() < 1e-16
    W = np.array([[0.0, -3.0], [3.0, 0.0]])
    E = np.asarray(expm_ld(W), dtype=float)
    assert np.abs(E - np.array([[np.cos(3), -np.sin(3)], [np.sin(3), np.cos(3)]])).max() < 1e-15
    # noise integral: scalar a: Qd = q (e^{2aT}-1)/(2a); integrator chain closed form
    Phi, Qd, _ = noise_integral([[-0.7]], [[2.0]], 3.0)
    assert abs(Qd[0, 0] - 2.0 * (np.exp(-4.2) - 1) / (-1.4)) < 1e-15 and abs(Phi[0, 0] - np.exp(-2.1)) < 1e-16
    Phi, Qd, _ = noise_integral([[0.0, 1.0], [0.0, 0.0]], [[0.0, 0.0], [0.0, 3.0]], 2.0)
    assert np.abs(Qd - 3.0 * np.array([[8 / 3, 2.0], [2.0, 2.0]])).max() < 1e-14

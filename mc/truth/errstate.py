"""The library's error-state coordinates written out from their definition
(`correct_pva(pva_err, x) = pva_true`), with an independent geometry/rotation algebra:

    phi = log(C_true C_err^T)            (rotation vector, NED / "platform" frame)
    dv  = v_err - exp(phi)^T v_true
    dr  = NED metres such that stepping -dr from the erroneous position gives the true one

and the inverse map "uncorrect" (given the true state and x, build the erroneous state).
A pva is a plain float array [lat, lon, alt, VN, VE, VD, roll, pitch, heading] (degrees).
"""
import numpy as np

from . import geo, rot

D2R = geo.D2R
R2D = geo.R2D


def c_of(pva):
    return rot.c_nb(pva[6] * D2R, pva[7] * D2R, pva[8] * D2R)


def step_lla(lla, dr):
    """Move a geodetic point by NED metres dr, radii evaluated at the starting point."""
    lat, lon, alt = lla
    rn, re = geo.radii(lat * D2R, alt)
    return np.array([lat + dr[0] / rn * R2D, lon + dr[1] / (re * np.cos(lat * D2R)) * R2D, alt - dr[2]])


def uncorrect(pva, x):
    """pva_err such that correcting it with x gives pva (exact for velocity/attitude; for the
    position the radii are evaluated at pva instead of pva_err: relative error |dr|/R)."""
    pva = np.asarray(pva, dtype=float)
    x = np.asarray(x, dtype=float)
    r = rot.expm_rodrigues_ld(x[6:9])
    c_err = r.T @ c_of(pva)
    v_err = r.T @ pva[3:6] + x[3:6]
    # iterate so that step_lla(lla_err, -dr) == lla_true to round-off
    lla_err = step_lla(pva[:3], x[0:3])
    for _ in range(3):
        back = step_lla(lla_err, -x[0:3])
        lla_err = lla_err + (pva[:3] - back)
    return np.hstack([lla_err, v_err, rot.rph_from_c(c_err) * R2D])


def correct(pva_err, x):
    """Reference implementation of the correction convention."""
    pva_err = np.asarray(pva_err, dtype=float)
    r = rot.expm_rodrigues_ld(x[6:9])
    lla = step_lla(pva_err[:3], -np.asarray(x[0:3]))
    v = r @ (pva_err[3:6] - x[3:6])
    return np.hstack([lla, v, rot.rph_from_c(r @ c_of(pva_err)) * R2D])


def errstate(pva_err, pva_true):
    """x such that correct(pva_err, x) = pva_true."""
    pva_err = np.asarray(pva_err, dtype=float)
    pva_true = np.asarray(pva_true, dtype=float)
    phi = rot.log_so3(c_of(pva_true) @ c_of(pva_err).T)
    dv = pva_err[3:6] - rot.expm_rodrigues_ld(phi).T @ pva_true[3:6]
    rn, re = geo.radii(pva_err[0] * D2R, pva_err[2])
    dlon = (pva_err[1] - pva_true[1] + 180.0) % 360.0 - 180.0
    dr = np.array([(pva_err[0] - pva_true[0]) * D2R * rn,
                   dlon * D2R * re * np.cos(pva_err[0] * D2R),
                   pva_true[2] - pva_err[2]])
    return np.hstack([dr, dv, phi])


def self_test():
    p = np.array([-33.0, 151.0, 5000.0, 200.0, -100.0, 5.0, 20.0, -40.0, 170.0])
    for x in (np.array([100.0, -50.0, 30.0, 0.5, -0.2, 0.1, 0.01, -0.02, 0.03]),
              np.array([0.0, 0.0, 0.0, 0.0, 0.0, 0.0, 0.3, 0.0, 0.0])):
        pe = uncorrect(p, x)
        back = correct(pe, x)
        d = back - p
        assert np.abs(d[:2]).max() < 1e-13 and abs(d[2]) < 1e-9, d
        assert np.abs(d[3:6]).max() < 1e-12 and np.abs(d[6:]).max() < 1e-11, d
        xx = errstate(pe, p)
        assert np.abs(xx - x)[:3].max() < 1e-7 and np.abs(xx - x)[3:].max() < 1e-12, xx - x

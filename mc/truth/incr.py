"""Exact body rotation vector and start-frame velocity increment over an interval for
arbitrary analytic body rate w(t) and specific force f(t) (reference model):

    C' = C [w x],  v' = C f,  C(t0) = I, v(t0) = 0   ->  theta = log C(t1),  dv = v(t1)

integrated with DOP853 at rtol 1e-13.  Signals are triples of kin.Sines.
"""
import numpy as np
from scipy.integrate import solve_ivp

from . import rot
from .kin import Sines

_GLX, _GLW = np.polynomial.legendre.leggauss(12)


class Signal:
    def __init__(self, comps):
        self.c = tuple(comps)

    def __call__(self, t):
        return np.stack([s(t) for s in self.c], axis=-1)

    def integral(self, t0, t1, nsub=4):
        """Plain time integral over [t0, t1] (what an increment-type sensor outputs)."""
        acc = np.zeros(3)
        for s in range(nsub):
            a = t0 + (t1 - t0) * s / nsub
            b = t0 + (t1 - t0) * (s + 1) / nsub
            acc += 0.5 * (b - a) * (_GLW[:, None] * self(0.5 * (a + b) + 0.5 * (b - a) * _GLX)).sum(0)
        return acc

    def to_json(self):
        return [s.to_json() for s in self.c]

    @staticmethod
    def from_json(j):
        return Signal([Sines.from_json(x) for x in j])


def exact_increment(w, f, t0, t1):
    def rhs(t, s):
        c = s[:9].reshape(3, 3)
        wt = w(t)
        wx = np.array([[0, -wt[2], wt[1]], [wt[2], 0, -wt[0]], [-wt[1], wt[0], 0]])
        return np.concatenate([(c @ wx).ravel(), c @ f(t)])
    s0 = np.concatenate([np.eye(3).ravel(), np.zeros(3)])
    sol = solve_ivp(rhs, (t0, t1), s0, method='DOP853', rtol=1e-13, atol=1e-16)
    s = sol.y[:, -1]
    c = s[:9].reshape(3, 3)
    # re-orthonormalise (ODE drift ~1e-14) before the log
    u, _, vt = np.linalg.svd(c)
    return rot.log_so3(u @ vt), s[9:]


def self_test():
    # constant w: theta = w T exactly, dv = (int_0^T exp([w x] t) dt) f  (closed form)
    wv = np.array([0.7, -1.1, 2.0])
    fv = np.array([3.0, -20.0, 9.0])
    w = Signal([Sines(x) for x in wv])
    f = Signal([Sines(x) for x in fv])
    T = 0.13
    th, dv = exact_increment(w, f, 0.4, 0.4 + T)
    assert np.abs(th - wv * T).max() < 1e-13
    n = np.linalg.norm(wv)
    k = rot.skew(wv)
    integral = np.eye(3) * T + (1 - np.cos(n * T)) / n ** 2 * k + (n * T - np.sin(n * T)) / n ** 3 * (k @ k)
    assert np.abs(dv - integral @ fv).max() < 1e-12
    s = Signal([Sines(1.0, 2.0, [(0.5, 3.0, 0.2)])] * 3)
    ex = 1.0 * 0.5 + 2.0 * 0.125 + 0.5 / 3.0 * (np.cos(0.2) - np.cos(1.7))
    assert abs(s.integral(0.0, 0.5)[0] - ex) < 1e-15

"""Independent rotation algebra (reference model, not pyins/scipy code)."""
import numpy as np


def rx(a):
    c, s = np.cos(a), np.sin(a)
    return np.array([[1, 0, 0], [0, c, -s], [0, s, c]], dtype=float)


def ry(a):
    c, s = np.cos(a), np.sin(a)
    return np.array([[c, 0, s], [0, 1, 0], [-s, 0, c]], dtype=float)


def rz(a):
    c, s = np.cos(a), np.sin(a)
    return np.array([[c, -s, 0], [s, c, 0], [0, 0, 1]], dtype=float)


def c_nb(roll, pitch, heading):
    """Body-to-NED matrix: heading about D, then pitch about the new y, then roll."""
    return rz(heading) @ ry(pitch) @ rx(roll)


def c_nb_written_out(r, p, h):
    """The same matrix with every entry written out (second formulation)."""
    sr, cr, sp, cp, sh, ch = np.sin(r), np.cos(r), np.sin(p), np.cos(p), np.sin(h), np.cos(h)
    return np.array([
        [cp * ch, sr * sp * ch - cr * sh, cr * sp * ch + sr * sh],
        [cp * sh, sr * sp * sh + cr * ch, cr * sp * sh - sr * ch],
        [-sp, sr * cp, cr * cp]])


def rph_from_c(c):
    """roll, pitch, heading (rad) of a body-to-NED matrix, |pitch| < 90 deg."""
    pitch = -np.arcsin(np.clip(c[2, 0], -1, 1))
    roll = np.arctan2(c[2, 1], c[2, 2])
    heading = np.arctan2(c[1, 0], c[0, 0])
    return np.array([roll, pitch, heading])


def skew(v):
    return np.array([[0, -v[2], v[1]], [v[2], 0, -v[0]], [-v[1], v[0], 0]], dtype=float)


def expm_rodrigues_ld(rv):
    """Exponential map in extended precision (Rodrigues formula)."""
    v = np.asarray(rv, dtype=np.longdouble)
    n2 = v @ v
    n = np.sqrt(n2)
    k = np.array([[0, -v[2], v[1]], [v[2], 0, -v[0]], [-v[1], v[0], 0]], dtype=np.longdouble)
    if n == 0:
        return np.eye(3)
    # 1 - cos via 2 sin^2(n/2) avoids cancellation
    s = np.sin(n) / n
    c = 2 * np.sin(n / 2) ** 2 / n2
    return np.asarray(np.eye(3, dtype=np.longdouble) + s * k + c * (k @ k), dtype=float)


def expm_taylor(rv, terms=24):
    """Exponential map by the plain matrix Taylor series in extended precision."""
    v = np.asarray(rv, dtype=np.longdouble)
    k = np.array([[0, -v[2], v[1]], [v[2], 0, -v[0]], [-v[1], v[0], 0]], dtype=np.longdouble)
    # scaling and squaring keeps the series short for norms up to pi
    sq = 0
    nrm = float(np.sqrt(v @ v))
    while nrm > 0.25:
        nrm /= 2
        sq += 1
    k = k / (2 ** sq)
    out = np.eye(3, dtype=np.longdouble)
    term = np.eye(3, dtype=np.longdouble)
    for i in range(1, terms):
        term = term @ k / i
        out = out + term
    for _ in range(sq):
        out = out @ out
    return np.asarray(out, dtype=float)


def log_so3(c):
    """Rotation vector of a rotation matrix (angle in [0, pi])."""
    c = np.asarray(c, dtype=float)
    v = np.array([c[2, 1] - c[1, 2], c[0, 2] - c[2, 0], c[1, 0] - c[0, 1]]) / 2
    s = np.linalg.norm(v)
    co = (np.trace(c) - 1) / 2
    ang = np.arctan2(s, co)
    if s < 1e-12:
        if co > 0:
            return v
        # angle ~ pi: take axis from the symmetric part
        m = (c + np.eye(3)) / 2
        ax = np.sqrt(np.clip(np.diag(m), 0, None))
        i = int(np.argmax(ax))
        ax = m[i] / ax[i]
        return ax / np.linalg.norm(ax) * ang
    return v / s * ang


def rot_angle(c):
    """Rotation angle of a matrix that is a rotation up to round-off."""
    v = np.array([c[2, 1] - c[1, 2], c[0, 2] - c[2, 0], c[1, 0] - c[0, 1]]) / 2
    return float(np.arctan2(np.linalg.norm(v), (np.trace(c) - 1) / 2))


def quat_from_c(c):
    """Unit quaternion (w, x, y, z) of a rotation matrix, w >= 0."""
    v = log_so3(c)
    a = np.linalg.norm(v)
    if a < 1e-300:
        return np.array([1.0, 0, 0, 0])
    q = np.hstack([np.cos(a / 2), np.sin(a / 2) * v / a])
    return q


def slerp_c(c0, c1, alpha):
    """Shortest-arc interpolation between two rotation matrices."""
    d = log_so3(c0.T @ c1)
    return c0 @ expm_rodrigues_ld(alpha * d)


def self_test():
    rng_angles = [(-2.9, -1.2, 3.0), (0.3, 0.7, -2.0), (1.0, -0.4, 0.1), (0, 0, 0)]
    for r, p, h in rng_angles:
        a = c_nb(r, p, h)
        b = c_nb_written_out(r, p, h)
        assert np.abs(a - b).max() < 1e-15
        assert np.abs(a @ a.T - np.eye(3)).max() < 1e-15
        back = rph_from_c(a)
        assert np.abs(back - np.array([r, p, h])).max() < 1e-14
    for n in (0.0, 1e-9, 1e-4, 1e-3, 0.2, 1.0, 3.0, np.pi):
        for d in ([1, 0, 0], [0.6, -0.48, 0.64], [-1, 1, 1]):
            d = np.array(d, float)
            d = d / np.linalg.norm(d)
            e1 = expm_rodrigues_ld(n * d)
            e2 = expm_taylor(n * d)
            assert np.abs(e1 - e2).max() < 4e-16, (n, d, np.abs(e1 - e2).max())
            if 0 < n < np.pi:
                assert np.abs(log_so3(e1) - n * d).max() < 1e-9 * max(1.0, n)
    c0 = c_nb(0.1, -0.2, 3.0)
    c1 = c_nb(-0.3, 0.4, -3.0)
    assert np.abs(slerp_c(c0, c1, 0) - c0).max() < 1e-15
    assert np.abs(slerp_c(c0, c1, 1) - c1).max() < 1e-14
    half = slerp_c(c0, c1, 0.5)
    assert abs(rot_angle(c0.T @ half) - rot_angle(half.T @ c1)) < 1e-14

"""Kinematic truth: closed-form rigid-body navigation on the rotating WGS-84 ellipsoid.

A motion is six analytic functions lat(t), lon(t), h(t), roll(t), pitch(t), heading(t)
(constant + linear + sum of sinusoids, radians / metres).  From them, in closed form:

    v_n   = ((R_N+h) lat', (R_E+h) cos(lat) lon', -h')
    v_n'  by the chain rule (needs dR_N/dlat, dR_E/dlat)
    f_n   = v_n' + (2 Omega_n + rho_n) x v_n - g_n          (specific force, NED)
    w_ib^b = C_bn (Omega_n + rho_n) + w_nb^b                 (body rate)

None of this is pyins code and none of it shares mechanisation equations with the ECEF
ODE used in self_test().  Everything is vectorised over time.
"""
import numpy as np

from . import geo

_GLX, _GLW = np.polynomial.legendre.leggauss(12)


class Sines:
    """x(t) = c0 + c1 t + sum_i a_i sin(w_i t + p_i), with exact derivatives."""

    def __init__(self, c0, c1=0.0, terms=()):
        self.c0, self.c1, self.terms = float(c0), float(c1), tuple(terms)

    def __call__(self, t, d=0):
        t = np.asarray(t, dtype=float)
        if d == 0:
            r = self.c0 + self.c1 * t
        elif d == 1:
            r = self.c1 + 0.0 * t
        else:
            r = 0.0 * t
        for a, w, p in self.terms:
            r = r + a * w ** d * np.sin(w * t + p + d * np.pi / 2)
        return r

    def to_json(self):
        return [self.c0, self.c1, [list(x) for x in self.terms]]

    @staticmethod
    def from_json(j):
        return Sines(j[0], j[1], [tuple(x) for x in j[2]])


class Motion:
    def __init__(self, lat, lon, h, r, p, y):
        self.f = (lat, lon, h, r, p, y)

    def to_json(self):
        return [s.to_json() for s in self.f]

    @staticmethod
    def from_json(j):
        return Motion(*[Sines.from_json(x) for x in j])

    # ---- kinematics -----------------------------------------------------------
    def lla(self, t):
        return np.stack([self.f[0](t), self.f[1](t), self.f[2](t)], axis=-1)

    def rph(self, t):
        return np.stack([self.f[3](t), self.f[4](t), self.f[5](t)], axis=-1)

    def vel(self, t):
        lat, h = self.f[0](t), self.f[2](t)
        dlat, dlon, dh = self.f[0](t, 1), self.f[1](t, 1), self.f[2](t, 1)
        rn, re = geo.radii(lat, h)
        return np.stack([rn * dlat, re * np.cos(lat) * dlon, -dh], axis=-1)

    def c_nb(self, t):
        r, p, y = self.f[3](t), self.f[4](t), self.f[5](t)
        return _c_nb(r, p, y)

    def imu(self, t):
        """Exact body rate w_ib^b and specific force f^b at times t -> (n,3), (n,3)."""
        t = np.atleast_1d(np.asarray(t, dtype=float))
        lat, lon, h, r, p, y = [f(t) for f in self.f]
        dlat, dlon, dh, dr, dp, dy = [f(t, 1) for f in self.f]
        ddlat, ddlon, ddh = [f(t, 2) for f in self.f[:3]]
        rn, re = geo.radii(lat, h)
        drn, dre = geo.dradii(lat)
        sl, cl = np.sin(lat), np.cos(lat)
        z = np.zeros_like(t)
        v = np.stack([rn * dlat, re * cl * dlon, -dh], axis=-1)
        dv = np.stack([(drn * dlat + dh) * dlat + rn * ddlat,
                       (dre * dlat + dh) * cl * dlon - re * sl * dlat * dlon + re * cl * ddlon,
                       -ddh], axis=-1)
        om = geo.RATE * np.stack([cl, z, -sl], axis=-1)
        rho = np.stack([dlon * cl, -dlat, -dlon * sl], axis=-1)
        g = np.stack([z, z, geo.grav(lat, h)], axis=-1)
        f_n = dv + np.cross(2 * om + rho, v) - g
        c = _c_nb(r, p, y)
        w_nb_b = np.stack([dr - dy * np.sin(p),
                           dp * np.cos(r) + dy * np.sin(r) * np.cos(p),
                           -dp * np.sin(r) + dy * np.cos(r) * np.cos(p)], axis=-1)
        w = np.einsum('nji,nj->ni', c, om + rho) + w_nb_b
        f_b = np.einsum('nji,nj->ni', c, f_n)
        return w, f_b

    def integrals(self, t0, t1, nsub=4):
        """Exact (to quadrature) integrals of body rate and specific force over the
        intervals [t0_k, t1_k] (arrays) -> (n,3), (n,3)."""
        t0 = np.atleast_1d(np.asarray(t0, dtype=float))
        t1 = np.atleast_1d(np.asarray(t1, dtype=float))
        n = len(t0)
        w_acc = np.zeros((n, 3))
        f_acc = np.zeros((n, 3))
        for s in range(nsub):
            a = t0 + (t1 - t0) * s / nsub
            b = t0 + (t1 - t0) * (s + 1) / nsub
            half = 0.5 * (b - a)
            mid = 0.5 * (a + b)
            for x, wq in zip(_GLX, _GLW):
                w, f = self.imu(mid + half * x)
                w_acc += (half * wq)[:, None] * w
                f_acc += (half * wq)[:, None] * f
        return w_acc, f_acc


def _c_nb(r, p, y):
    sr, cr, sp, cp, sh, ch = np.sin(r), np.cos(r), np.sin(p), np.cos(p), np.sin(y), np.cos(y)
    c = np.empty(np.shape(r) + (3, 3))
    c[..., 0, 0] = cp * ch
    c[..., 0, 1] = sr * sp * ch - cr * sh
    c[..., 0, 2] = cr * sp * ch + sr * sh
    c[..., 1, 0] = cp * sh
    c[..., 1, 1] = sr * sp * sh + cr * ch
    c[..., 1, 2] = cr * sp * sh - sr * ch
    c[..., 2, 0] = -sp
    c[..., 2, 1] = sr * cp
    c[..., 2, 2] = cr * cp
    return c


# ------------------------------------------------------------------------------------
# Motion family used by C01 / C03 / C04 (one place, so the lattices are comparable)
# ------------------------------------------------------------------------------------
ATTITUDES = ('tilt', 'yaw_osc', 'coning', 'spin', 'inverted')


def make_motion(lat_deg, lon_deg, alt, speed, course_deg, climb, attitude, weave, phase=0.0):
    """Build one motion of the family. phase (rad) shifts the generic (non-special)
    phases of the sinusoids - see DESIGN.md section 4 (VERIF_SEED)."""
    lat0 = lat_deg * geo.D2R
    lon0 = lon_deg * geo.D2R
    rn, re = geo.radii(lat0, alt)
    crs = course_deg * geo.D2R
    dlat = speed * np.cos(crs) / rn
    dlon = speed * np.sin(crs) / (re * np.cos(lat0))
    lat_terms, lon_terms, h_terms = [], [], []
    if weave:
        # horizontal weave of about 2 g: amplitude 5 m at 2 rad/s, quadrature in N/E
        lat_terms.append((5.0 / rn, 2.0, 0.3 + phase))
        lon_terms.append((4.0 / (re * np.cos(lat0)), 2.3, 1.1 + phase))
        h_terms.append((1.5, 1.7, 0.5 + phase))
    lat = Sines(lat0, dlat, lat_terms)
    lon = Sines(lon0, dlon, lon_terms)
    h = Sines(alt, climb, h_terms)
    if attitude == 'tilt':
        r, p, y = Sines(0.35), Sines(-0.6), Sines(crs + 0.2 + phase)
    elif attitude == 'yaw_osc':
        r, p, y = Sines(0.0), Sines(0.0), Sines(crs, 0.0, [(0.8, 1.5, 0.4 + phase)])
    elif attitude == 'coning':
        r = Sines(0.1, 0.0, [(0.3, 5.0, 0.0 + phase)])
        p = Sines(-0.2, 0.0, [(0.3, 5.0, np.pi / 2 + phase)])
        y = Sines(crs + 1.0, 0.05, [(0.4, 3.1, 2.0 + phase)])
    elif attitude == 'spin':
        # sustained 3 rad/s about a skew body axis
        r, p, y = Sines(0.5 + 0.1 * np.sin(phase)), Sines(0.3), Sines(crs + phase, 3.0)
    elif attitude == 'inverted':
        # inverted flight, rolling about 150 deg (|roll| > 90 deg is a legitimate attitude)
        r = Sines(2.6, 0.0, [(0.25, 1.3, 0.2 + phase)])
        p = Sines(0.2, 0.0, [(0.1, 0.9, 1.0 + phase)])
        y = Sines(crs - 0.4, 0.02)
    else:
        raise ValueError(attitude)
    return Motion(lat, lon, h, r, p, y)


# ------------------------------------------------------------------------------------
def _ode_rhs(t, s, m):
    r, v, c = s[:3], s[3:6], s[6:].reshape(3, 3)          # c = C_eb
    lat, lon, h = geo.ecef2lla(r)
    w, f = m.imu(t)
    w, f = w[0], f[0]
    om = np.array([0.0, 0.0, geo.RATE])
    g_e = geo.c_en(lat, lon) @ np.array([0.0, 0.0, geo.grav(lat, h)])
    dv = c @ f + g_e - 2 * np.cross(om, v)
    wx = np.array([[0, -w[2], w[1]], [w[2], 0, -w[0]], [-w[1], w[0], 0]])
    ox = np.array([[0, -geo.RATE, 0], [geo.RATE, 0, 0], [0, 0, 0]])
    dc = c @ wx - ox @ c
    return np.concatenate([v, dv, dc.ravel()])


def ode_check(m, T):
    """Integrate the ECEF-frame navigation ODE driven by m.imu and compare with the
    closed-form trajectory. Returns (position error m, velocity error m/s, attitude rad)."""
    from scipy.integrate import solve_ivp
    lla0 = m.lla(0.0)
    c_en0 = geo.c_en(lla0[0], lla0[1])
    r0 = geo.lla2ecef(*lla0)
    v0 = c_en0 @ m.vel(0.0)
    c0 = c_en0 @ m.c_nb(0.0)
    sol = solve_ivp(_ode_rhs, (0.0, T), np.concatenate([r0, v0, c0.ravel()]), args=(m,),
                    method='DOP853', rtol=1e-12, atol=1e-12)
    s = sol.y[:, -1]
    llaT = m.lla(T)
    c_enT = geo.c_en(llaT[0], llaT[1])
    e_pos = np.linalg.norm(s[:3] - geo.lla2ecef(*llaT))
    e_vel = np.linalg.norm(s[3:6] - c_enT @ m.vel(T))
    dc = s[6:].reshape(3, 3) @ (c_enT @ m.c_nb(T)).T
    e_att = np.linalg.norm([dc[2, 1] - dc[1, 2], dc[0, 2] - dc[2, 0], dc[1, 0] - dc[0, 1]]) / 2
    return e_pos, e_vel, e_att


def self_test():
    # two formulations sharing no mechanisation equations must agree
    m = make_motion(-33.0, 151.0, 5000.0, 224.0, 200.0, 3.0, 'coning', True)
    ep, ev, ea = ode_check(m, 6.0)
    assert ep < 1e-5 and ev < 1e-5 and ea < 1e-8, (ep, ev, ea)
    m = make_motion(85.0, -179.5, 20000.0, 300.0, 45.0, -5.0, 'spin', False)
    ep, ev, ea = ode_check(m, 4.0)
    assert ep < 1e-5 and ev < 1e-5 and ea < 1e-8, (ep, ev, ea)
    # quadrature of the interval integrals: compare 4x12 with 8x12 sub-intervals
    w4, f4 = m.integrals([0.0, 1.0], [0.05, 1.05], nsub=4)
    w8, f8 = m.integrals([0.0, 1.0], [0.05, 1.05], nsub=8)
    assert np.abs(w4 - w8).max() < 1e-15 and np.abs(f4 - f8).max() < 1e-13

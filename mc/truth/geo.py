"""Independent WGS-84 geometry and normal gravity (reference model, not pyins code).

Angles are in radians here unless a name says _deg.  Constants are the WGS-84 values
the library documents (they are data, not code); every formula is written out from
the definition of the ellipsoid.
"""
import numpy as np

A = 6378137.0
E2 = 6.6943799901413e-3
RATE = 7.292115e-5
GE = 9.7803253359
GP = 9.8321849378
KSOM = (1 - E2) ** 0.5 * GP / GE - 1
D2R = np.pi / 180
R2D = 180 / np.pi


def radii(lat, h=0.0):
    """(R_N + h, R_E + h): meridian and prime-vertical radii plus height."""
    s = np.sin(lat)
    x = 1 - E2 * s * s
    re = A / np.sqrt(x)
    rn = A * (1 - E2) / x ** 1.5
    return rn + h, re + h


def dradii(lat):
    """d R_N / d lat, d R_E / d lat."""
    s, c = np.sin(lat), np.cos(lat)
    x = 1 - E2 * s * s
    dre = A * E2 * s * c / x ** 1.5
    drn = 3 * A * (1 - E2) * E2 * s * c / x ** 2.5
    return drn, dre


def grav(lat, h=0.0):
    """Somigliana normal gravity with the library's linear height term."""
    s2 = np.sin(lat) ** 2
    return GE * (1 + KSOM * s2) / np.sqrt(1 - E2 * s2) * (1 - 2 * h / A)


def lla2ecef(lat, lon, h):
    s, c = np.sin(lat), np.cos(lat)
    n = A / np.sqrt(1 - E2 * s * s)
    return np.array([(n + h) * c * np.cos(lon), (n + h) * c * np.sin(lon),
                     (n * (1 - E2) + h) * s])


def ecef2lla(r):
    """Fixed-point iteration to machine precision (works away from the exact centre)."""
    x, y, z = r
    lon = np.arctan2(y, x)
    p = np.hypot(x, y)
    if p < 1e-9:
        lat = np.sign(z) * np.pi / 2 if z != 0 else 0.0
        return lat, lon, abs(z) - A * np.sqrt(1 - E2)
    lat = np.arctan2(z, p * (1 - E2))
    h = 0.0
    for _ in range(60):
        s = np.sin(lat)
        n = A / np.sqrt(1 - E2 * s * s)
        # use whichever of p/cos, z/sin is well conditioned
        if abs(np.cos(lat)) > 0.5:
            h = p / np.cos(lat) - n
        else:
            h = z / s - n * (1 - E2)
        lat_new = np.arctan2(z, p * (1 - E2 * n / (n + h)))
        if abs(lat_new - lat) < 1e-16:
            lat = lat_new
            break
        lat = lat_new
    return lat, lon, h


def c_en(lat, lon):
    """Matrix whose columns are the N, E, D unit vectors resolved in ECEF."""
    sl, cl, so, co = np.sin(lat), np.cos(lat), np.sin(lon), np.cos(lon)
    return np.array([[-sl * co, -so, -cl * co],
                     [-sl * so, co, -cl * so],
                     [cl, 0.0, -sl]])


def earth_rate_n(lat):
    return RATE * np.array([np.cos(lat), 0.0, -np.sin(lat)])


def transport_rate_n(lat, h, v):
    rn, re = radii(lat, h)
    return np.array([v[1] / re, -v[0] / rn, -v[1] * np.tan(lat) / re])


def gravitation_e(lat, lon, h):
    """Mass attraction in ECEF: gravity (along -D... i.e. +D axis down) minus
    centrifugal acceleration, g_grav = g + Omega x (Omega x r)."""
    r = lla2ecef(lat, lon, h)
    g_e = c_en(lat, lon) @ np.array([0.0, 0.0, grav(lat, h)])
    om = np.array([0.0, 0.0, RATE])
    return g_e + np.cross(om, np.cross(om, r))


def self_test():
    # round trip and radii = numerical derivatives of the ECEF position
    for lat_d in (-89.0, -60.0, -1e-3, 0.0, 33.0, 85.0):
        for lon_d in (-179.0, 10.0, 151.0):
            for h in (-500.0, 0.0, 20000.0, 4e7):
                lat, lon = lat_d * D2R, lon_d * D2R
                r = lla2ecef(lat, lon, h)
                la, lo, hh = ecef2lla(r)
                assert abs(la - lat) < 1e-13 and abs(lo - lon) < 1e-13, (lat_d, lon_d, h)
                assert abs(hh - h) < 1e-6 * max(1, abs(h) / 1e6), (lat_d, lon_d, h, hh)
                d = 1e-5
                dr_lat = (lla2ecef(lat + d, lon, h) - lla2ecef(lat - d, lon, h)) / (2 * d)
                dr_lon = (lla2ecef(lat, lon + d, h) - lla2ecef(lat, lon - d, h)) / (2 * d)
                rn, re = radii(lat, h)
                c = c_en(lat, lon)
                assert np.allclose(dr_lat, rn * c[:, 0], rtol=0, atol=1e-2 * (1 + abs(h) / 1e6))
                assert np.allclose(dr_lon, re * np.cos(lat) * c[:, 1], rtol=0,
                                   atol=1e-2 * (1 + abs(h) / 1e6))
                assert abs(np.linalg.det(c) - 1) < 1e-14
    # derivative of the radii
    for lat_d in (-70.0, 20.0, 50.0):
        lat = lat_d * D2R
        d = 1e-6
        n1 = [(a - b) / (2 * d) for a, b in zip(radii(lat + d), radii(lat - d))]
        drn, dre = dradii(lat)
        assert abs(n1[0] - drn) < 1e-3 and abs(n1[1] - dre) < 1e-3
    assert abs(grav(0.0) - GE) < 1e-15 and abs(grav(np.pi / 2) - GP) < 1e-12

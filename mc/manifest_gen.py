"""Regenerates /verif/MANIFEST.json from the table below (run: /venv/bin/python -m mc.manifest_gen).

Only properties whose check module exists are claimed; every other property is listed
under not_applicable with the reason "not yet implemented" so that the manifest is valid
and honest at every commit.
"""
import json
import os

HERE = os.path.dirname(os.path.dirname(os.path.abspath(__file__)))

TABLE = {
    'C01': dict(engine='E3 gridx', level='exploration', technique=(
        'bounded-exhaustive enumeration of a motion lattice x sensor type x dt ladder, each point '
        'executed on the real integrator; closed-form kinematic truth + halving-law oracle'),
        text=('Every motion of a stated lattice (sites in both hemispheres, speeds to 300 m/s, 3-axis '
              'attitude dynamics, 2 g weave) is integrated by the real code on a ladder of sampling '
              'intervals and compared with an independent closed-form solution; error <= 3 x halving '
              'change on every channel. Exhaustive over the lattice, not the continuum.'),
        note='closed-form WGS-84 kinematic truth (mc/truth/kin.py, self-tested against an ECEF ODE); '
             'finite dt ladders; this machine\'s floating point', ref='6/C01'),
    'C02': dict(engine='E1 seqx', level='model_checking', technique=(
        'explicit-state breadth-first exploration of Integrator call histories on live objects '
        '(deviation-bounded, content-hash deduplication), bitwise reference = fresh single-call integrator'),
        text=('All histories of integrate(chunk)/predict/set_pva/get_* calls up to a deviation bound, for '
              'buffer capacities 1..6 and both altitude modes, are executed on the real object with '
              'bounds-checked kernels and compared bit for bit with a fresh integrator.'),
        note='NUMBA_BOUNDSCHECK=1 kernels; 10-row increments table; deviation bound stated in evidence',
        ref='6/C02'),
    'C03': dict(engine='E3 gridx', level='exploration', technique=(
        'bounded-exhaustive enumeration of motion lattice x 3 input forms x 2 sensor types x dt ladder '
        'on the real synthesiser; kinematic truth + halving law; rest lattice closed form'),
        text='generate_imu output compared with exact body rate / specific force of analytic motions on a '
             'dt ladder, the three input forms against each other, strapdown inversion, and a rest lattice.',
        note='kinematic truth model; spline end effects allowed by the halving law', ref='6/C03'),
    'C04': dict(engine='E3 gridx', level='exploration', technique=(
        'bounded-exhaustive enumeration of operating points x all error directions; measured '
        'central-difference sensitivity of the real integrator vs the model propagated exactly'),
        text='Every block of F, B_gyro, B_accel compared with the measured sensitivity of the real '
             'integrator in the library\'s own error coordinates, within an a-priori neglected-term matrix.',
        note='neglected-term scale matrix written a priori; blocks decided only where larger than it',
        ref='6/C04'),
    'C05': dict(engine='E3 gridx', level='exploration', technique=(
        'bounded-exhaustive pva lattice x error directions x magnitude ladder; second-order residual law'),
        text='Left-inverse identity, correction vs output transform to second order (ladder in error '
             'magnitude), perturb-then-correct, exact zeros in 2D.', note='lattice, finite ladders',
        ref='6/C05'),
    'C06': dict(engine='E3 gridx', level='exploration', technique=(
        'bounded-exhaustive pva x lever arm x rates x values x modes x 3 classes; independent residual and '
        'Richardson-extrapolated numerical Jacobian under the library\'s correction convention'),
        text='z, H, R of every measurement class compared with an independently computed residual and the '
             'numerical derivative of z with respect to the error state.', note='lattice', ref='6/C06'),
    'C07': dict(engine='E3 gridx', level='exploration', technique=(
        'bounded-exhaustive structured matrix alphabets x all block orders; exact rational posterior'),
        text='kalman.correct compared with the exact posterior (Fraction arithmetic for n<=8) over '
             'structured (n,m,P,H,R,scale) alphabets and every ordering of independent blocks.',
        note='structured, not random, matrices', ref='6/C07'),
    'C08': dict(engine='E3 gridx', level='exploration', technique=(
        'bounded-exhaustive (F,Q,dt) alphabets x all partitions up to 8 parts; own exponential + '
        'Gauss-Legendre noise integral; composition law'),
        text='Phi and Qd compared with an independent exponential and quadrature; symmetry/PSD; zero '
             'step; composition over all enumerated partitions.', note='||F||dt capped', ref='6/C08'),
    'C09': dict(engine='E2 schedx', level='model_checking', technique=(
        'exhaustive enumeration of IMU/measurement schedules (all subsets of <= M samples over 4N+3 slots x '
        '3 sensors, cluster family, patterns, steps, modes, defaults) executed on the real feedback filter '
        'under a sys.monitoring loop-head monitor; declarative use-once/index oracle'),
        text=('Every schedule of the stated alphabet is one execution of the real run_feedback_filter; the '
              'loop-head cursor graph is recorded (cycle = livelock), and trajectory index, innovation '
              'stamps, spy logs and table indices are compared with a declarative specification.'),
        note='bounded: N<=4 increments, M<=3 samples + clusters of 3-4; dyadic times + decimal regime; '
             'one sensor object per class', ref='6/C09'),
    'C10': dict(engine='E2 schedx', level='model_checking', technique=(
        'exhaustive enumeration of trajectory/measurement schedules executed on the real feedforward filter '
        'under a sys.monitoring loop-head monitor (cursor-state repeat = proven livelock); declarative '
        'use-once/index/step-length oracle'),
        text=('Every schedule of the stated alphabet is one execution of the real run_feedforward_filter; '
              'termination is decided by the cursor-state graph, results by a declarative specification.'),
        note='bounded as C09; decimal 0.1 s regime included', ref='6/C10'),
    'C11': dict(engine='E3 gridx', level='exploration', technique=(
        'bounded-exhaustive enumeration of sensor-mask classes x measurement mixes x steps x modes x sigma '
        'scales on the real feedforward filter; independent one-shot Gauss-Markov estimator as oracle'),
        text='All result fields compared with a non-recursive batch estimator assembled from public model '
             'objects with its own discretisation and block layout.', note='model classes, not all 2^36 masks',
        ref='6/C11'),
    'C12': dict(engine='E2+E1+E3', level='exploration', technique=(
        'exhaustive empty-span schedules (bitwise vs integrator), exhaustive re-run sequences up to length 3 '
        '(bitwise vs fresh models), error-scale ladder for first-order equivalence'),
        text='Transparency and re-run determinism are exact, enumerated; first-order equivalence decided on a '
             'three-decade ladder with a stated discretisation floor.', note='floor constant stated in evidence',
        ref='6/C12'),
    'C13': dict(engine='E1+E2', level='model_checking', technique=(
        'explicit-state exploration of 2D Integrator histories incl. set_pva with VD != 0 + exhaustive 2D '
        'filter schedules with vertical measurement offsets; exact-zero / bitwise invariants'),
        text='VD == 0.0 and alt == last supplied altitude on every produced row in every reachable state; '
             'exact zero sd for down/VD in both filters; two-row measurement models.',
        note='bounded histories/schedules', ref='6/C13'),
    'C14': dict(engine='E1/E3', level='model_checking', technique=(
        'complete enumeration of all 2^18 enable masks against an independent layout specification; all 2^9 '
        'scale/misalignment masks x bias masks x types for inverse identities; update sequences; scripted-RNG '
        'impulse extraction of exact noise gains'),
        text='The configuration space is finite and enumerated completely; numeric identities on the full '
             'sm-mask space; variances obtained exactly by linear-map extraction.',
        note='parameter values from a small alphabet', ref='6/C14'),
    'C15': dict(engine='E3 gridx', level='exploration', technique=(
        'bounded-exhaustive signal families x types x stamps x T ladder; exact ODE increments; measured order'),
        text='Observed convergence order of rotation vector and velocity increment against exact integrals, '
             'including the predicted leftover cubic term for linear signals.', note='finite ladders',
        ref='6/C15'),
    'C16': dict(engine='E3 gridx', level='exploration', technique=(
        'bounded-exhaustive lat x lon x alt lattice incl. poles, +-180, 40000 km x call forms; own WGS-84 '
        'geometry and gravity'),
        text='Round trips, frame axes vs numerical derivatives, radii, first-order agreement of metre '
             'transforms, curvature matrix, all gravity representations, parity.', note='lattice', ref='6/C16'),
    'C17': dict(engine='E3 gridx', level='exploration', technique=(
        'bounded-exhaustive Euler lattice and rotation-vector norms incl. the branch threshold; own rotation '
        'algebra and extended-precision exponential map'),
        text='mat_from_rph/mat_to_rph conventions and round trip, mat_from_rotvec vs exponential map across '
             'the branch, Euler-error matrix vs numerical derivative.', note='lattice', ref='6/C17'),
    'C18': dict(engine='E3 gridx', level='exploration', technique=(
        'bounded-exhaustive table pairs (all 2^10 sub-samplings, shifts, rates, overlaps) x orders x column '
        'subsets; boring table algebra; bitwise identities'),
        text='compute_state_difference / resample_state / to_180_range / perturb_pva against a reference '
             'table algebra and exact identities.', note='12-row base table', ref='6/C18'),
    'C19': dict(engine='E1 seqx', level='model_checking', technique=(
        'exhaustive enumeration of call programs (singles, repeats, all ordered pairs) over a catalogue of '
        'public callables x argument forms; argument snapshots, bitwise repeat/order independence, schema'),
        text='Every catalogue entry alone, twice, and after every other entry; arguments bitwise unchanged; '
             'results independent of history; documented column sets.', note='catalogue listed in evidence',
        ref='6/C19'),
}


def build():
    checks = []
    na = []
    for pid in sorted(TABLE):
        t = TABLE[pid]
        if os.path.exists(os.path.join(HERE, 'mc', 'props', pid.lower() + '.py')):
            checks.append(dict(
                property_id=pid,
                quick_cmd='./check %s --tier quick' % pid,
                thorough_cmd='./check %s --tier thorough' % pid,
                evidence_file='/verif/evidence/%s.json' % pid,
                replay_cmd_template='./check %s --replay {path}' % pid,
                engine=t['engine'],
                level_claimed=dict(category=t['level'], text=t['text'],
                                   design_ref='DESIGN.md section ' + t['ref']),
                level_note=t['note'],
                technique=t['technique']))
        else:
            na.append(dict(property_id=pid,
                           reason='check not implemented yet at this commit (planned: %s); '
                                  'not claimed until it is' % t['engine']))
    man = dict(
        version=1,
        setup_cmd='cd /verif && ./check --selftest',
        hooks=dict(
            guard='PYINS_VERIF',
            enable='no source hooks: checks import /repo (or $VERIF_REPO) directly and observe through '
                   'public extension points, sys.monitoring and NUMBA_BOUNDSCHECK=1 (DESIGN.md section 2)',
            baseline_off_cmd='cd /repo && /venv/bin/python -m pytest -ra -q -p no:cacheprovider '
                             '--timeout=900 --continue-on-collection-errors',
            source_commits=[],
            add_only=True),
        engines=[
            dict(name='E1 seqx', path='mc/seqx.py', serves_properties=['C02', 'C13', 'C14', 'C12', 'C19'],
                 kind_free_text='explicit-state exploration of operation sequences on live objects'),
            dict(name='E2 schedx', path='mc/schedx.py', serves_properties=['C09', 'C10', 'C12', 'C13'],
                 kind_free_text='exhaustive schedule enumeration on the real filter loops with a '
                                'loop-head cursor monitor'),
            dict(name='E3 gridx', path='mc/props', serves_properties=[
                'C01', 'C03', 'C04', 'C05', 'C06', 'C07', 'C08', 'C11', 'C15', 'C16', 'C17', 'C18'],
                 kind_free_text='bounded-exhaustive lattices with reference and ladder oracles'),
        ],
        checks=checks,
        not_applicable=na,
        notes='Runner: ./check <ID> --tier quick|thorough; replay: ./check <ID> --replay <file>. '
              'Known findings: /verif/known_findings.json. Seeded detection demonstrations: /verif/seeded/.')
    return man


if __name__ == '__main__':
    man = build()
    with open(os.path.join(HERE, 'MANIFEST.json'), 'w') as f:
        json.dump(man, f, indent=1)
    print('claimed:', [c['property_id'] for c in man['checks']])
    print('not yet:', [c['property_id'] for c in man['not_applicable']])

"""Runner: case dispatch over a crash/timeout-attributing worker pool, replay rule,
known findings, evidence writer.  See DESIGN.md sections 2, 3 and 5.

A property module (mc/props/cNN.py) provides

    ID, LEVEL                       'C07', 'exploration' | 'model_checking'
    RULE                            text: how cases are enumerated / what is non-trivial
    ASSUMPTIONS                     list of str
    CASE_TIMEOUT                    seconds per case (watchdog)
    self_test()                     optional, truth-model self tests; raises on failure
    gen_cases(tier, seed)           -> list of JSON-serialisable case dicts
    run_case(case)                  -> dict(viol=[dict(sig=..., msg=...)], key=str|None,
                                            nontrivial=bool, stats={...})
    finalize(cases, results, tier)  -> dict of extra coverage keys (optional)
"""
import hashlib
import importlib
import json
import multiprocessing as mp
import multiprocessing.connection as mpc
import os
import signal
import subprocess
import sys
import time
import traceback

PROPS = ['C%02d' % i for i in range(1, 20)]


# --------------------------------------------------------------------------- utilities
def jdump(obj):
    return json.dumps(obj, sort_keys=True, default=_jdefault)


def _jdefault(o):
    import numpy as np
    if isinstance(o, (np.integer,)):
        return int(o)
    if isinstance(o, (np.floating,)):
        return float(o)
    if isinstance(o, np.ndarray):
        return o.tolist()
    if isinstance(o, (set, frozenset)):
        return sorted(o)
    return repr(o)


def load_prop(pid):
    return importlib.import_module('mc.props.' + pid.lower())


def assert_binding(repo):
    import pyins
    f = os.path.realpath(pyins.__file__)
    if not f.startswith(os.path.realpath(repo) + os.sep):
        raise SystemExit('HARNESS: pyins imported from %s, not from %s' % (f, repo))
    return f


def _in_repo_traceback(tb, repo):
    repo = os.path.realpath(repo) + os.sep
    for fs in traceback.extract_tb(tb):
        if os.path.realpath(fs.filename).startswith(repo):
            return True
    return False


def safe_run_case(mod, case, repo):
    """Run one case; an exception whose traceback passes through the repository is a
    violation of that case (signature EXC:<type>), any other exception is a harness
    fault."""
    try:
        res = mod.run_case(case)
        res.setdefault('viol', [])
        res.setdefault('stats', {})
        res.setdefault('nontrivial', True)
        res.setdefault('key', None)
        return res
    except Exception as e:  # noqa
        tb = traceback.format_exc()
        if _in_repo_traceback(e.__traceback__, repo):
            return dict(viol=[dict(sig='EXC:%s' % type(e).__name__,
                                   msg='%s: %s' % (type(e).__name__, str(e)[:300]),
                                   traceback=tb[-2000:])],
                        stats={}, nontrivial=True, key=None)
        # An exception raised by the oracle itself while it digests what the repository returned (None where a tuple
        # is documented, a singular matrix where a covariance is expected, a table of the wrong shape): the output
        # cannot be what the property describes - on the unchanged tree no oracle aborts (every tier, every seed).  It
        # is a violation of that case, confirmed in a fresh process like any other; faults that say nothing about
        # the repository's output (memory, files, imports, interrupts) stay harness errors.
        if isinstance(e, (TypeError, ValueError, IndexError, KeyError, AttributeError, ArithmeticError,
                          AssertionError)) and not isinstance(e, (ImportError, OSError, MemoryError)):
            last = traceback.extract_tb(e.__traceback__)[-1]
            inner = [fs for fs in traceback.extract_tb(e.__traceback__) if os.sep + 'mc' + os.sep in fs.filename]
            where = inner[-1] if inner else last
            return dict(viol=[dict(sig='ORACLE-ABORT:%s:%s' % (type(e).__name__, where.name),
                                   msg='the oracle could not digest the repository\'s output: %s: %s (at %s:%d)'
                                       % (type(e).__name__, str(e)[:200], os.path.basename(where.filename), where.lineno),
                                   traceback=tb[-2000:])],
                        stats={}, nontrivial=True, key=None)
        return dict(harness_error=tb, viol=[], stats={}, nontrivial=False, key=None)


# --------------------------------------------------------------------------- worker pool
def _worker_main(conn, pid_name, repo):
    signal.signal(signal.SIGINT, signal.SIG_IGN)
    try:
        mod = load_prop(pid_name)
        assert_binding(repo)
        if hasattr(mod, 'worker_init'):
            mod.worker_init()
    except Exception:
        conn.send(('fatal', traceback.format_exc()))
        return
    conn.send(('ready',))
    while True:
        try:
            msg = conn.recv()
        except EOFError:
            return
        if msg is None:
            return
        for idx, case in msg:
            conn.send(('s', idx))
            res = safe_run_case(mod, case, repo)
            conn.send(('r', idx, res))
        conn.send(('done',))


MAX_WATCHDOG_HITS = 6


def _cpu_seconds(pid):
    """user + system CPU seconds used so far by process pid (0.0 if it cannot be read)."""
    try:
        with open('/proc/%d/stat' % pid) as f:
            rest = f.read().rsplit(')', 1)[1].split()
        return (int(rest[11]) + int(rest[12])) / float(os.sysconf('SC_CLK_TCK'))
    except Exception:
        return 0.0


class Pool:
    def __init__(self, pid_name, repo, jobs, timeout, batch, fresh=False):
        self.fresh = fresh
        self.pid_name, self.repo, self.jobs = pid_name, repo, jobs
        self.timeout, self.batch = timeout, batch
        self.ctx = mp.get_context('fork')
        self.workers = {}
        self.worker_hist = {}      # worker id -> case indices in execution order
        self.where = {}            # case index -> (worker id, position in that worker's history)

    def _spawn(self):
        parent, child = self.ctx.Pipe()
        p = self.ctx.Process(target=_worker_main, args=(child, self.pid_name, self.repo),
                             daemon=True)
        p.start()
        child.close()
        self.n_spawned = getattr(self, 'n_spawned', 0) + 1
        w = dict(proc=p, conn=parent, pending=[], cur=None, t0=None, ready=False, wid=self.n_spawned)
        self.worker_hist[w['wid']] = []
        self.workers[parent] = w
        return w

    def run(self, cases, progress=None):
        """cases: list of case dicts. Returns list of results (same order)."""
        n = len(cases)
        results = [None] * n
        queue = list(range(n))
        queue.reverse()
        for _ in range(min(self.jobs, max(1, (n + self.batch - 1) // self.batch))):
            self._spawn()
        done = 0
        t_last = time.time()
        while done < n:
            if not self.workers:
                self._spawn()
            ready = mpc.wait(list(self.workers.keys()), timeout=1.0)
            now = time.time()
            for conn in ready:
                w = self.workers.get(conn)
                if w is None:
                    continue
                try:
                    msg = conn.recv()
                except (EOFError, ConnectionResetError, OSError):
                    done += self._worker_died(w, results, queue)
                    continue
                tag = msg[0]
                if tag == 'fatal':
                    raise SystemExit('HARNESS: worker failed to start:\n' + msg[1])
                if tag == 'done' and self.fresh and queue:
                    # one pristine process per batch (C19: history independence is compared with a
                    # first-call-in-a-fresh-process baseline)
                    try:
                        conn.send(None)
                    except Exception:
                        pass
                    w['proc'].join(timeout=5)
                    conn.close()
                    del self.workers[conn]
                    self._spawn()
                    continue
                if tag == 'ready' or tag == 'done':
                    w['ready'] = True
                    w['cur'] = None
                    w['pending'] = []
                    if queue:
                        b = [queue.pop() for _ in range(min(self.batch, len(queue)))]
                        w['pending'] = list(b)
                        conn.send([(i, cases[i]) for i in b])
                    else:
                        try:
                            conn.send(None)
                        except Exception:
                            pass
                        w['proc'].join(timeout=5)
                        conn.close()
                        del self.workers[conn]
                elif tag == 's':
                    w['cur'] = msg[1]
                    w['t0'] = now
                    w['cpu0'] = _cpu_seconds(w['proc'].pid)
                    h = self.worker_hist[w['wid']]
                    self.where[msg[1]] = (w['wid'], len(h))
                    h.append(msg[1])
                elif tag == 'r':
                    results[msg[1]] = msg[2]
                    if msg[1] in w['pending']:
                        w['pending'].remove(msg[1])
                    w['cur'] = None
                    done += 1
            # watchdog
            for conn, w in list(self.workers.items()):
                # The watchdog counts the CPU time of the worker, not wall time: a livelock burns CPU, a worker
                # starved by other load on the machine does not, and a check must not alarm because the machine is
                # busy.  Wall time is only a distant backstop (a case blocked without using CPU).
                if w['cur'] is not None and (
                        _cpu_seconds(w['proc'].pid) - w.get('cpu0', 0.0) > self.timeout
                        or now - w['t0'] > max(6 * self.timeout, self.timeout + 1800)):
                    idx = w['cur']
                    try:
                        w['proc'].kill()
                    except Exception:
                        pass
                    w['proc'].join(timeout=5)
                    conn.close()
                    del self.workers[conn]
                    results[idx] = dict(
                        viol=[dict(sig='NONTERMINATION',
                                   msg='case exceeded the %.0f s (CPU) watchdog' % self.timeout)],
                        stats={}, nontrivial=True, key=None)
                    done += 1
                    rest = [i for i in w['pending'] if i != idx]
                    queue.extend(reversed(rest))
                    self.watchdog_hits = getattr(self, 'watchdog_hits', 0) + 1
                    if self.watchdog_hits >= MAX_WATCHDOG_HITS:
                        # the verdict is settled (a non-terminating case is a violation); every further hanging case
                        # would cost a full watchdog period, so the rest of the run is abandoned and reported as such
                        for conn2, w2 in list(self.workers.items()):
                            try:
                                w2['proc'].kill()
                            except Exception:
                                pass
                            w2['proc'].join(timeout=5)
                            conn2.close()
                        self.workers = {}
                        self.abandoned = sum(1 for r_ in results if r_ is None)
                        for i_ in range(n):
                            if results[i_] is None:
                                results[i_] = dict(viol=[], stats={}, nontrivial=False, key=None, not_run=True)
                        done = n
                        break
                    self._spawn()
            if progress and now - t_last > 15:
                t_last = now
                progress(done, n)
        for conn, w in list(self.workers.items()):
            try:
                conn.send(None)
            except Exception:
                pass
            w['proc'].join(timeout=5)
            if w['proc'].is_alive():
                w['proc'].kill()
        self.workers = {}
        return results

    def history_before(self, idx):
        wid, pos = self.where.get(idx, (None, 0))
        return list(self.worker_hist.get(wid, [])[:pos])

    def _worker_died(self, w, results, queue):
        conn = w['conn']
        w['proc'].join(timeout=5)
        code = w['proc'].exitcode
        conn.close()
        del self.workers[conn]
        cnt = 0
        idx = w['cur']
        if idx is not None:
            results[idx] = dict(
                viol=[dict(sig='CRASH', msg='worker died with exit code %r' % code)],
                stats={}, nontrivial=True, key=None)
            cnt = 1
        elif not w['ready']:
            raise SystemExit('HARNESS: worker died during start-up (exit %r)' % code)
        rest = [i for i in w['pending'] if i != idx]
        queue.extend(reversed(rest))
        self._spawn()
        return cnt


# --------------------------------------------------------------------------- known findings
def load_known(here):
    path = os.path.join(here, 'known_findings.json')
    if not os.path.exists(path):
        return []
    with open(path) as f:
        return json.load(f).get('findings', [])


def match_known(known, pid, sig):
    for k in known:
        if k.get('property') == pid and k.get('status') == 'open' and k.get('signature') == sig:
            return k
    return None


# --------------------------------------------------------------------------- replay
def replay_path(here, pid, case):
    h = hashlib.sha1(jdump(case).encode()).hexdigest()[:16]
    d = os.path.join(here, 'replays', pid)
    os.makedirs(d, exist_ok=True)
    return os.path.join(d, h + '.json')


def write_replay(here, pid, case, viol, history_cases=None):
    path = replay_path(here, pid, case if not history_cases else dict(case=case, n_hist=len(history_cases)))
    d = dict(property=pid, case=case, violations=viol)
    if history_cases:
        d['history_cases'] = history_cases
        d['note'] = ('history-dependent: the violation reproduces only after the listed cases have run in the same '
                     'process, i.e. the library carries state from one call to the next')
    with open(path, 'w') as f:
        f.write(jdump(d))
    return path


def run_replay_subprocess(here, pid, path):
    """Re-execute a replay file in a fresh process; returns list of signatures or None."""
    cmd = [sys.executable, os.path.join(here, 'check'), pid, '--replay', path, '--json']
    try:
        out = subprocess.run(cmd, capture_output=True, text=True, timeout=900, cwd=here)
    except subprocess.TimeoutExpired:
        return ['NONTERMINATION']
    for line in out.stdout.splitlines():
        if line.startswith('REPLAY-RESULT '):
            return json.loads(line[len('REPLAY-RESULT '):])
    if out.returncode < 0:
        return ['CRASH']
    sys.stderr.write(out.stdout[-2000:] + out.stderr[-2000:])
    return None


def do_replay(mod, pid, path, repo, as_json):
    with open(path) as f:
        rp = json.load(f)
    if hasattr(mod, 'worker_init'):
        mod.worker_init()
    for hc in rp.get('history_cases', []):
        safe_run_case(mod, hc, repo)       # state left behind by earlier cases of the same process
    res = safe_run_case(mod, rp['case'], repo)
    if res.get('harness_error'):
        print(res['harness_error'])
        return 3
    sigs = sorted({v['sig'] for v in res['viol']})
    if as_json:
        print('REPLAY-RESULT ' + json.dumps(sigs))
        return 0
    for v in res['viol']:
        print('  %s: %s' % (v['sig'], v['msg']))
    if sigs:
        print('VIOLATION property=%s replay=%s' % (pid, path))
        return 1
    print('replay: no violation')
    return 0


# --------------------------------------------------------------------------- main
def validate_evidence(path):
    """Validate with jsonschema from the tooling venv if it is present."""
    schema = '/root/.vp/EVIDENCE.schema.json'
    vt = '/opt/veriftools/pyvenv/bin/python'
    if not (os.path.exists(schema) and os.path.exists(vt)):
        return True
    code = ("import json,sys,jsonschema;"
            "jsonschema.validate(json.load(open(sys.argv[1])),json.load(open(sys.argv[2])))")
    r = subprocess.run([vt, '-c', code, path, schema], capture_output=True, text=True,
                       env={k: v for k, v in os.environ.items() if not k.startswith('PYTHON')})
    if r.returncode != 0:
        sys.stderr.write(r.stderr[-1500:])
        return False
    return True


def main(argv, here, repo):
    import argparse
    ap = argparse.ArgumentParser()
    ap.add_argument('pid', nargs='?')
    ap.add_argument('--tier', default=os.environ.get('VERIF_TIER', 'quick'),
                    choices=['quick', 'thorough'])
    ap.add_argument('--jobs', type=int, default=int(os.environ.get('VERIF_JOBS', '0')))
    ap.add_argument('--replay')
    ap.add_argument('--json', action='store_true')
    ap.add_argument('--selftest', action='store_true')
    ap.add_argument('--list', action='store_true')
    ap.add_argument('--limit', type=int, default=0, help='debug: run only first N cases')
    ap.add_argument('--no-confirm', action='store_true',
                    help='debug: skip the fresh-process confirmation of violations')
    args = ap.parse_args(argv)

    if args.list:
        for p in PROPS:
            try:
                load_prop(p)
                print(p, 'implemented')
            except ImportError:
                print(p, '-')
        return 0

    if args.selftest:
        return selftest(here, repo)

    pid = args.pid.upper()
    mod = load_prop(pid)
    assert_binding(repo)
    if args.replay:
        return do_replay(mod, pid, args.replay, repo, args.json)

    seed = int(os.environ.get('VERIF_SEED', '0') or 0)
    tier = args.tier
    t0 = time.time()
    jobs = args.jobs or min(16, os.cpu_count() or 1)

    if hasattr(mod, 'self_test'):
        try:
            mod.self_test()
        except Exception:
            print('HARNESS: reference-model self test failed')
            traceback.print_exc()
            return 3

    cases = mod.gen_cases(tier, seed)
    if args.limit:
        cases = cases[:args.limit]
    n = len(cases)
    # the seed rotates the dispatch order only (enumeration stays exhaustive)
    order = list(range(n))
    if n:
        r = (seed * 7919) % n
        order = order[r:] + order[:r]
    ordered = [cases[i] for i in order]

    print('[%s] tier=%s seed=%d cases=%d jobs=%d repo=%s' % (pid, tier, seed, n, jobs, repo),
          flush=True)
    pool = Pool(pid, repo, jobs, float(os.environ.get('VERIF_CASE_TIMEOUT', getattr(mod, 'CASE_TIMEOUT', 120))),
                getattr(mod, 'BATCH', 8), fresh=getattr(mod, 'FRESH_WORKER_PER_BATCH', False))
    res_ordered = pool.run(
        ordered, progress=lambda d, m: print('  ... %d/%d' % (d, m), flush=True))
    results = [None] * n
    for k, i in enumerate(order):
        results[i] = res_ordered[k]

    abandoned = getattr(pool, 'abandoned', 0)
    if abandoned:
        print('ABANDONED: %d of %d cases were not run: %d cases had already exceeded the watchdog (each is reported as a '
              'violation below)' % (abandoned, n, MAX_WATCHDOG_HITS), flush=True)
        keep = [i for i in range(n) if not results[i].get('not_run')]
        cases = [cases[i] for i in keep]
        results = [results[i] for i in keep]
        n = len(cases)

    herr = [r for r in results if r.get('harness_error')]
    if herr:
        print('HARNESS: %d case(s) raised outside the repository code' % len(herr))
        print(herr[0]['harness_error'])
        return 3

    # a property module may compare results of different cases with each other (C19: first call of g after a
    # history in one process vs first call of g in another, pristine process)
    if hasattr(mod, 'cross_check'):
        for i, vv in mod.cross_check(cases, results):
            results[i]['viol'].append(vv)

    # ------------------------------------------------------------ violations
    known = load_known(here)
    by_sig = {}
    for i, r in enumerate(results):
        for sig in sorted({v['sig'] for v in r['viol']}):
            by_sig.setdefault(sig, []).append(i)
    n_viol_cases = sum(1 for r in results if r['viol'])
    exit_code = 0
    confirmed = []
    known_lines = []
    MAX_CONFIRM = 6
    unreproduced = []
    for sig in sorted(by_sig):
        idxs = by_sig[sig]
        i = idxs[0]
        viol = [v for v in results[i]['viol'] if v['sig'] == sig]
        rcase = viol[0].get('replay_case') or cases[i]
        path = write_replay(here, pid, rcase,
                            [dict(sig=x['sig'], msg=x['msg']) for x in results[i]['viol']])
        k = match_known(known, pid, sig)
        if len(confirmed) >= MAX_CONFIRM and not k:
            # further distinct signatures are listed but not individually re-executed
            print('  (over the confirmation cap, not re-executed) %s x%d: %s'
                  % (sig, len(idxs), viol[0]['msg']))
            continue
        if args.no_confirm:
            sigs2 = [sig]
        else:
            sigs2 = run_replay_subprocess(here, pid, path)
        if sigs2 is None:
            print('HARNESS: replay subprocess failed for %s' % path)
            return 3
        if sig not in sigs2:
            # not reproducible in isolation: replay together with the cases the same worker process had
            # executed before it (a defect that carries state between calls needs its history)
            hist = [ordered[j] for j in pool.history_before(order.index(i))]
            path = write_replay(here, pid, cases[i],
                                [dict(sig=x['sig'], msg=x['msg']) for x in results[i]['viol']], hist)
            sigs3 = run_replay_subprocess(here, pid, path) if hist else None
            if not sigs3 or sig not in sigs3:
                # not a verdict on its own; if another signature of this run is confirmed the run still ends with that
                # (reproducible) violation, otherwise the run is a harness fault (exit 3)
                print('HARNESS-NONDETERMINISM: %s did not reproduce from %s (got %s / with history %s)'
                      % (sig, path, sigs2, sigs3))
                unreproduced.append(sig)
                continue
            print('  (reproduces only after the %d cases that ran before it in the same process: state is '
                  'carried between calls)' % len(hist))
        if k:
            known_lines.append((sig, len(idxs), k))
            print('KNOWN-FINDING: property=%s %s [%s; %d case(s) this run; e.g. replay=%s]'
                  % (pid, k.get('what', ''), sig, len(idxs), path))
        else:
            confirmed.append((sig, len(idxs), path))
            print('  %s x%d: %s' % (sig, len(idxs), viol[0]['msg']))
            print('VIOLATION property=%s replay=%s' % (pid, path))
            exit_code = 1

    if unreproduced and not confirmed and not known_lines:
        print('HARNESS: no violation of this run could be reproduced from a fresh process (%s)' % unreproduced)
        return 3
    if unreproduced:
        print('  (%d further signature(s) depended on what the worker process had run before and were not reproduced in '
              'isolation: %s)' % (len(unreproduced), unreproduced))

    # ------------------------------------------------------------ evidence
    keys = set()
    n_nontrivial_nokey = 0
    for r in results:
        if r['nontrivial']:
            if r['key'] is None:
                n_nontrivial_nokey += 1
            else:
                keys.add(r['key'])
    cov = dict(
        evaluations=n,
        distinct_nontrivial=len(keys) + n_nontrivial_nokey,
        rule=getattr(mod, 'RULE', ''),
        exhaustive=not abandoned,
        samples=[cases[i] for i in sorted({0, n // 2, n - 1})] if n else [],
        violating_cases=n_viol_cases,
        violation_signatures={s: len(v) for s, v in by_sig.items()},
        known_findings_reported=[s for s, _, _ in known_lines],
    )
    agg = {}
    for r in results:
        for k, v in r['stats'].items():
            if isinstance(v, (int, float)) and not isinstance(v, bool):
                if k.startswith('max_'):
                    agg[k] = max(agg.get(k, v), v)
                elif k.startswith('min_'):
                    agg[k] = min(agg.get(k, v), v)
                else:
                    agg[k] = agg.get(k, 0) + v
    cov['stats'] = agg
    if hasattr(mod, 'finalize'):
        extra = mod.finalize(cases, results, tier)
        if extra:
            cov.update(extra)
    ev = dict(property_id=pid, tier=tier, seed=seed, level=mod.LEVEL, coverage=cov,
              assumptions=list(getattr(mod, 'ASSUMPTIONS', [])),
              wall_s=round(time.time() - t0, 2),
              violations=sum(c for _, c, _ in confirmed))
    edir = os.environ.get('VERIF_EVIDENCE_DIR') or os.path.join(here, 'evidence')
    if args.limit and not os.environ.get('VERIF_EVIDENCE_DIR'):
        # a debugging run over the first N cases must not replace the evidence of a complete run
        edir = os.path.join(here, 'replays', '_limited_evidence')
    os.makedirs(edir, exist_ok=True)
    epath = os.path.join(edir, pid + '.json')
    with open(epath, 'w') as f:
        f.write(json.dumps(json.loads(jdump(ev)), indent=1, sort_keys=True))
    if not validate_evidence(epath):
        print('HARNESS: evidence file does not validate against the schema')
        return 3
    print('[%s] done: cases=%d distinct_nontrivial=%d violating=%d wall=%.1fs exit=%d'
          % (pid, n, cov['distinct_nontrivial'], n_viol_cases, time.time() - t0, exit_code),
          flush=True)
    return exit_code


def selftest(here, repo):
    assert_binding(repo)
    from mc import truth  # noqa
    import pkgutil
    bad = 0
    for m in pkgutil.iter_modules(truth.__path__):
        mod = importlib.import_module('mc.truth.' + m.name)
        if hasattr(mod, 'self_test'):
            try:
                mod.self_test()
                print('selftest %s ok' % m.name)
            except Exception:
                traceback.print_exc()
                print('selftest %s FAILED' % m.name)
                bad += 1
    return 3 if bad else 0

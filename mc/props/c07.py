"""C07 - Kalman correction is the exact Bayesian posterior with whitened innovation.

Engine E3: full product of structured (n, m, P, H, R, scale, x/z) alphabets - every matrix
built deterministically (DCT bases, prescribed spectra, integer factors, selector /
duplicate / zero rows) - evaluated on the real kalman.correct and compared with the exact
posterior in rational arithmetic (mc/truth/lin.py); all splits of the observations into
<= 3 independent blocks in ALL orders.
"""
import itertools

import numpy as np

from mc.truth import lin

ID = 'C07'
LEVEL = 'exploration'
CASE_TIMEOUT = 900
BATCH = 8
EPS = np.finfo(float).eps
RULE = ('full product n {1,2,3,5,9,20} x m {1,2,3,6} x P kind (7) x H kind (4) x R kind (2) x R scale '
        '{1e-8,1,1e8} x (x,z) kind (3); for block-diagonal R every split of the m observations into <= 3 '
        'contiguous blocks and every permutation of the blocks. Non-trivial = P not zero and H not a '
        'pure selector; distinct = distinct tuples.')
ASSUMPTIONS = ['exact posterior in fractions.Fraction arithmetic (floats are exact rationals)',
               'tolerances c*eps*cond(S)*scale with c=64n; cond(S) reported per case',
               'structured, not random, matrices']
NS = [1, 2, 3, 5, 9, 20]
MS = [1, 2, 3, 6]
P_KINDS = ['identity', 'diag1e10', 'dense1e2', 'dense1e10', 'rank_n_1', 'rank1', 'zero']
H_KINDS = ['selector', 'dense', 'repeated', 'zero_row']
R_KINDS = ['diag', 'dense', 'block']
R_SCALES = [1e-8, 1.0, 1e8]
XZ_KINDS = ['unit', 'dense', 'dense1e6']


def gen_cases(tier, seed):
    ns, ms = list(NS), list(MS)
    if tier == 'thorough':
        ns += [4, 7, 12, 16]
        ms += [4, 5]
    return [dict(n=n, m=m, P=pk, H=hk, R=rk, rs=rs, xz=xz) for n, m, pk, hk, rk, rs, xz in
            itertools.product(ns, ms, P_KINDS, H_KINDS, R_KINDS, R_SCALES, XZ_KINDS)]


def build(case):
    n, m = case['n'], case['m']
    q = lin.dct_basis(n)
    pk = case['P']
    if pk == 'identity':
        P = np.eye(n)
    elif pk == 'diag1e10':
        P = np.diag(np.logspace(-5, 5, n)) if n > 1 else np.array([[1e5]])
    elif pk in ('dense1e2', 'dense1e10'):
        lo = -1 if pk == 'dense1e2' else -5
        P = q.T @ np.diag(np.logspace(lo, -lo, n)) @ q if n > 1 else np.array([[10.0 ** (-lo)]])
        P = (P + P.T) / 2
    elif pk == 'rank_n_1':
        A = np.array([[((3 * i + 5 * j) % 7) - 3.0 for j in range(max(n - 1, 1))] for i in range(n)])
        if n == 1:
            A = np.zeros((1, 1))
        P = A @ A.T
    elif pk == 'rank1':
        a = np.array([((2 * i) % 5) - 2.0 + (i == 0) for i in range(n)])
        P = np.outer(a, a)
    else:
        P = np.zeros((n, n))
    hk = case['H']
    if hk == 'selector':
        H = np.zeros((m, n))
        for i in range(m):
            H[i, (2 * i + 1) % n] = 1.0
    else:
        H = np.array([[np.cos(0.7 * (i + 1) * (j + 1)) + 0.25 * (i == j) for j in range(n)] for i in range(m)])
        H = np.round(H * 64) / 64            # short binary expansions keep the rationals small
        if hk == 'repeated' and m > 1:
            H[-1] = H[0]
        if hk == 'zero_row':
            H[m // 2] = 0.0
    rs = case['rs']
    if case['R'] == 'diag':
        R = np.diag(1.0 + 0.5 * np.arange(m)) * rs
    else:
        B = np.array([[((i * 3 + j * 2) % 5) - 2.0 for j in range(m)] for i in range(m)])
        R = (B @ B.T / 4 + np.eye(m)) * rs
        if case['R'] == 'block' and m > 1:
            # the first sensor is independent of the others, which are correlated among themselves
            R[0, 1:] = 0.0
            R[1:, 0] = 0.0
    xz = case['xz']
    if xz == 'unit':
        x = np.zeros(n)
        z = np.zeros(m)
        z[0] = 1.0
    else:
        x = np.array([np.sin(1.3 * i + 0.4) * (i + 1) for i in range(n)])
        z = np.array([np.cos(0.9 * i + 0.2) * 3 for i in range(m)])
        x = np.round(x * 256) / 256
        z = np.round(z * 256) / 256
        if xz == 'dense1e6':
            x, z = x * 1e6, z * 1e6
    return x, P, z, H, R


def compositions(m, max_parts=3):
    out = []
    for k in range(1, min(max_parts, m) + 1):
        for cuts in itertools.combinations(range(1, m), k - 1):
            b = [0] + list(cuts) + [m]
            out.append([list(range(b[i], b[i + 1])) for i in range(k)])
    return out


def run_case(case):
    from pyins import kalman
    x, P, z, H, R = build(case)
    n, m = case['n'], case['m']
    viol = []
    stats = {}

    def v(sig, msg):
        viol.append(dict(sig=sig, msg=msg))

    def tight(name, val):
        stats['max_tight_' + name] = max(stats.get('max_tight_' + name, 0.0), float(val))

    snap = [a.copy() for a in (x, P, z, H, R)]
    try:
        xp, Pp, inn = kalman.correct(x, P, z, H, R)
    except np.linalg.LinAlgError as e:
        v('c07-linalg-error', 'correct raised LinAlgError on a positive-definite S: %s' % e)
        return dict(viol=viol, key=repr(sorted(case.items())), nontrivial=True, stats=stats)
    if any((a != b).any() for a, b in zip(snap, (x, P, z, H, R))):
        v('c07-arg-mutated', 'kalman.correct modified one of its inputs')
    # argument form: integer-typed arrays (where the values are integers) must give the same result
    if case['xz'] == 'unit' and case['P'] in ('identity', 'rank1', 'zero') and case['H'] == 'selector' and \
            case['rs'] == 1.0 and case['R'] == 'dense' and float(np.abs(R * 4 - np.round(R * 4)).max()) == 0.0:
        xi, Pi_, inni = kalman.correct(x.astype(int), P.astype(int), z.astype(int), H.astype(int), R)
        if np.abs(xi - xp).max() > 0 or np.abs(Pi_ - Pp).max() > 0 or np.abs(inni - inn).max() > 0:
            v('c07-int-dtype-form', 'integer-typed x, P, z, H give a different result than the same values as floats')
    xe, Pe, K, S, e, chi2 = lin.exact_posterior(x, P, z, H, R)
    condS = np.linalg.cond(S)
    U = np.eye(n) - K @ H
    nP = np.abs(P).max() if P.any() else 0.0
    scaleP = (np.abs(U).sum(axis=1).max() ** 2) * nP + (np.abs(K).sum(axis=1).max() ** 2) * np.abs(R).max()
    c = 64 * max(n, m)
    tolP = c * EPS * (1 + condS) * scaleP + 1e-300
    scalex = np.abs(x).max() + np.abs(K).sum(axis=1).max() * (np.abs(e).max() + np.abs(H).sum(axis=1).max() * np.abs(x).max())
    tolx = c * EPS * (1 + condS) * scalex + 1e-300
    if xp.shape != (n,) or Pp.shape != (n, n) or inn.shape != (m,):
        v('c07-shapes', 'result shapes %s %s %s' % (xp.shape, Pp.shape, inn.shape))
        return dict(viol=viol, key=repr(sorted(case.items())), nontrivial=True, stats=stats)
    ex = np.abs(xp - xe).max()
    eP = np.abs(Pp - Pe).max()
    tight('x', ex / tolx)
    tight('P', eP / tolP)
    if ex > tolx:
        v('c07-posterior-mean', 'posterior mean differs from the exact conditional mean by %.3e (tol %.1e, '
          'cond(S)=%.1e)' % (ex, tolx, condS))
    if eP > tolP:
        v('c07-posterior-covariance', 'posterior covariance differs from the exact one by %.3e (tol %.1e, '
          'cond(S)=%.1e)' % (eP, tolP, condS))
    # the observed subspace, on the scale of R: H P+ H' = R - R S^-1 R is what the measurement leaves of the uncertainty
    # in the directions it sees.  The symmetric (Joseph) form computes it as (HU) P (HU)' + (HK) R (HK)' with HU = R S^-1 H
    # small, so its rounding error is relative to these terms (about eps |R|), not to |P|; a form that cancels two numbers
    # of prior size (P - K S K') is off by eps |P| there - invisible relative to |P| when the prior is diffuse (P/R up to
    # 1e16 inside the quantified ranges), and it can make the posterior variance of an observed state negative.
    HU, HK = H @ U, H @ K
    # (plus what the stored entries of P+ can resolve at all: H P+ H' evaluated from entries rounded to eps |P+_ij|; for a
    # selection matrix that is eps times the posterior variance itself, for a dense H it is eps |P|)
    tolM = c * EPS * (1 + condS) * (np.abs(HU) @ np.abs(P) @ np.abs(HU).T + np.abs(HK) @ np.abs(R) @ np.abs(HK).T) \
        + c * EPS * (np.abs(H) @ np.abs(Pe) @ np.abs(H).T) + 1e-300
    # entry (i, j) on the scale sqrt(T_ii T_jj) of its row and column (an exactly uncorrelated pair has T_ij = 0)
    dM = np.sqrt(np.diag(tolM))
    tolM = np.maximum(tolM, np.outer(dM, dM))
    eM = np.abs(H @ Pp @ H.T - H @ Pe @ H.T)
    tight('observed_subspace', (eM / tolM).max())
    if (eM > tolM).any():
        i_, j_ = np.unravel_index(np.argmax(eM / tolM), eM.shape)
        v('c07-observed-subspace', 'H P+ H\' differs from the exact posterior in the observed subspace by %.3e at (%d,%d) (tol %.1e: '
          'the error is measured on the scale of R, |R| = %.1e, |P| = %.1e)' % (eM[i_, j_], i_, j_, tolM[i_, j_], np.abs(R).max(), nP))
    asym = np.abs(Pp - Pp.T).max()
    tight('symmetry', asym / tolP)
    if asym > tolP:
        v('c07-asymmetric', 'posterior covariance asymmetric by %.3e' % asym)
    Ps = (Pp + Pp.T) / 2
    lam = np.linalg.eigvalsh(Ps).min() if n else 0.0
    if lam < -tolP * n:
        v('c07-not-psd', 'posterior covariance has eigenvalue %.3e' % lam)
    lam2 = np.linalg.eigvalsh((P + P.T) / 2 - Ps).min()
    if lam2 < -tolP * n - c * EPS * nP:
        v('c07-larger-than-prior', 'P_prior - P_posterior has eigenvalue %.3e' % lam2)
    # whitened innovation with the LOWER Cholesky factor
    L = lin.cholesky_lower_ld(S)
    w = np.asarray(lin.solve_lower_ld(L, e), dtype=float)
    tolw = c * EPS * (1 + condS) * (np.abs(w).max() + 1e-300)
    ew = np.abs(inn - w).max()
    tight('innovation', ew / tolw)
    if ew > tolw:
        v('c07-innovation', 'innovation differs from L^-1 (z - Hx), L lower Cholesky of S, by %.3e (tol %.1e); '
          'got %s expected %s' % (ew, tolw, inn[:4].tolist(), w[:4].tolist()))
    # change of units: observations scaled by D, states by E (powers of two: exact in binary floating point).
    # z' = D z, H' = D H E^-1, R' = D R D, x' = E x, P' = E P E describe the same estimation problem, so the posterior
    # is E x+, E P+ E and the whitened innovation is unchanged.  This decides the badly scaled problems (one coarse
    # sensor, R ~ 1e8, processed jointly with precise correlated ones, R ~ 1e-8; states in metres and radians) through
    # the exact oracle of the well scaled one; anything that compares entries of S, P or R with each other, or with a
    # constant, is not invariant.
    for variant, (dz, dx) in enumerate((([13] + [-13 + (i % 3) for i in range(1, m)], [(-9, 4, 11, 0, -3)[i % 5] for i in range(n)]),
                                        ([-13] + [13 - (i % 2) for i in range(1, m)], [0] * n))):
        d, e_ = 2.0 ** np.array(dz, dtype=float), 2.0 ** np.array(dx, dtype=float)
        D, E, Ei = np.diag(d), np.diag(e_), np.diag(1.0 / e_)
        try:
            xs_, Ps_u, inn_u = kalman.correct(E @ x, E @ P @ E, D @ z, D @ H @ Ei, D @ R @ D)
        except Exception as ex_:  # noqa
            v('c07-units:exception', 'after a change of units (variant %d) correct raised %s: %s'
              % (variant, type(ex_).__name__, str(ex_)[:100]))
            continue
        # compared, in the original units, with the exact posterior under the tolerances of the original problem (the
        # library's arithmetic is in fact bit-for-bit equivariant; nothing here relies on that)
        dxs = np.abs(Ei @ xs_ - xe)
        dPs = np.abs(Ei @ Ps_u @ Ei - Pe)
        dws = np.abs(inn_u - w)
        tight('units', max(dxs.max() / tolx, dPs.max() / tolP, dws.max() / tolw))
        if (dxs > tolx).any() or (dPs > tolP).any() or (dws > tolw).any():
            v('c07-units', 'after a change of units (observations x 2^%s, states x 2^%s) the result is not the posterior any more: mean off by %.3e, '
              'covariance by %.3e, whitened innovation by %.3e (in the original units)' % (dz, dx, dxs.max(), dPs.max(), dws.max()))
        stats['unit_changes'] = stats.get('unit_changes', 0) + 1
    # the same array objects with new contents (a caller that refills preallocated buffers): nothing may be
    # remembered by object identity.  Scalings by powers of two, the reference is the same call on fresh copies.
    xa, Pa, za, Ha, Ra = (a.copy() for a in (x, P, z, H, R))
    try:
        kalman.correct(xa, Pa, za, Ha, Ra)
        Ra *= 4.0
        Pa *= 0.25
        za *= -0.5
        Ha *= 2.0
        xa *= 0.5
        got = kalman.correct(xa, Pa, za, Ha, Ra)
        ref = kalman.correct(xa.copy(), Pa.copy(), za.copy(), Ha.copy(), Ra.copy())
        if any(np.shape(g) != np.shape(r_) or (np.asarray(g) != np.asarray(r_)).any() for g, r_ in zip(got, ref)):
            v('c07-same-objects-new-contents', 'correct called again with the same array objects refilled in place differs from '
              'the call on fresh copies of the same values (max diff %.3e)'
              % max(float(np.abs(np.asarray(g) - np.asarray(r_)).max()) for g, r_ in zip(got, ref)))
    except np.linalg.LinAlgError as ex_:
        v('c07-linalg-error', 'correct raised LinAlgError on rescaled inputs: %s' % ex_)
    # order independence over independent blocks (block-diagonal R)
    n_orders = 0
    if case['R'] == 'diag' and m > 1:
        import math
        for blocks in compositions(m):
            if len(blocks) == 1:
                continue
            for perm in itertools.permutations(range(len(blocks))):
                xs, Ps_, inns = x.copy(), P.copy(), {}
                ok = True
                tol_seq_P, tol_seq_x = 0.0, 0.0
                for bi in perm:
                    idx = blocks[bi]
                    # rounding of each step is relative to ITS prior and conditioning, and later
                    # steps (|U| <= O(1) in the directions they do not observe) pass it on
                    Sk = H[idx] @ Ps_ @ H[idx].T + R[np.ix_(idx, idx)]
                    Kk = np.linalg.solve(Sk, H[idx] @ Ps_).T
                    Uk = np.eye(n) - Kk @ H[idx]
                    ck = 1 + np.linalg.cond(Sk)
                    sk = (np.abs(Uk).sum(axis=1).max() ** 2) * np.abs(Ps_).max() + \
                        (np.abs(Kk).sum(axis=1).max() ** 2) * np.abs(R[np.ix_(idx, idx)]).max()
                    tol_seq_P += c * EPS * ck * sk
                    tol_seq_x += c * EPS * ck * (np.abs(xs).max() + np.abs(Kk).sum(axis=1).max() * (
                        np.abs(z[idx]).max() + np.abs(H[idx]).sum(axis=1).max() * np.abs(xs).max()))
                    try:
                        xs, Ps_, ii = kalman.correct(xs, Ps_, z[idx], H[idx], R[np.ix_(idx, idx)])
                    except np.linalg.LinAlgError:
                        ok = False
                        break
                    inns[bi] = ii
                n_orders += 1
                if not ok:
                    v('c07-linalg-error-sequential', 'sequential processing raised LinAlgError')
                    continue
                # each sequential step has its own conditioning: allow the sum of the bounds
                k_ = len(blocks)
                if np.abs(xs - xe).max() > 4 * (tolx + tol_seq_x):
                    v('c07-order-dependence-mean', 'sequential processing of blocks %s in order %s gives a '
                      'mean %.3e away from the joint posterior' % (blocks, perm, np.abs(xs - xe).max()))
                if np.abs(Ps_ - Pe).max() > 4 * (tolP + tol_seq_P):
                    v('c07-order-dependence-covariance', 'sequential processing of blocks %s in order %s '
                      'gives a covariance %.3e away from the joint posterior (tol %.1e)'
                      % (blocks, perm, np.abs(Ps_ - Pe).max(), 4 * (tolP + tol_seq_P)))
                allinn = np.hstack([inns[b] for b in range(len(blocks))])
                chi = float((allinn ** 2).sum())
                tolchi = c * EPS * (1 + condS) * (chi2 + 1e-300) * 8
                if abs(chi - chi2) > tolchi:
                    v('c07-innovation-norm-order', '|innovation|^2 = %.6g for order %s differs from the joint '
                      'value %.6g' % (chi, perm, chi2))
                if perm == tuple(range(len(blocks))):
                    if np.abs(allinn - w).max() > tolw * 8:
                        v('c07-sequential-innovations', 'in-order sequential innovations differ from the '
                          'joint whitened innovation by %.3e' % np.abs(allinn - w).max())
    stats['orders'] = n_orders
    stats['max_condS'] = float(condS)
    first = {}
    for q in viol:
        first.setdefault(q['sig'], q)
    nontrivial = case['P'] != 'zero' and case['H'] != 'selector'
    return dict(viol=list(first.values()), key=repr(sorted(case.items())), nontrivial=nontrivial, stats=stats)

"""C03 - synthesised IMU matches the motion's true kinematics and inverts strapdown.

Engine E3: motion lattice x 3 input forms x 2 sensor types, each point run on the real
sim.generate_imu on a dt ladder and compared with the closed-form kinematic truth
(mc/truth/kin.py) under the telescoped halving law (mc/ladder.py); plus a rest lattice
with closed-form expectations, structure checks, and strapdown inversion.
"""
import itertools

import numpy as np
import pandas as pd

from mc import ladder
from mc.truth import geo, kin
from mc.props import c01 as _c01

ID = 'C03'
LEVEL = 'exploration'
CASE_TIMEOUT = 900
BATCH = 2
RULE = ('moving part: full product of site x cruise x attitude dynamics x weave x input form {lla+vel, lla '
        'only, lla0+vel} x sensor type, each evaluated on the dt ladder; rest part: full product lat x alt '
        'x roll x pitch x heading x form x type. Non-trivial = moving or rotating (moving part) / any '
        'non-level attitude (rest part); distinct = distinct lattice points.')
ASSUMPTIONS = [
    'truth = closed-form kinematics (mc/truth/kin.py)',
    'telescoped halving law with tail constant 2; floors: gyro 64 eps/dt, accel 40 eps |r|/dt^2 (the '
    'synthesiser differentiates inertial positions of 6.4e6 m twice)',
    'lattice and finite ladder, not the continuum',
]
COLS = _c01.COLS
IMU_COLS = _c01.IMU_COLS
EPS = np.finfo(float).eps
R_EARTH = 6.4e6
FORMS = ('lla_vel', 'lla_only', 'lla0_vel')


def gen_cases(tier, seed):
    phase = (seed % 8) * 0.37
    lon_shift = (seed % 8) * 3.3
    cases = []
    if tier == 'quick':
        sites = [(-85.0, -179.5, 3000.0), (-33.0, 151.0, 20000.0), (0.0, 10.0, -500.0), (60.0, 40.0, 100.0),
                 (47.0, -179.999, 3000.0), (85.0, 151.0, 20000.0), (-60.0, 179.9995, 3000.0)]
        cruises = [(0.0, 45.0, 0.0), (30.0, 45.0, -5.0), (300.0, 200.0, 5.0)]
        ldr = [0.1, 0.05, 0.025, 0.0125]
    else:
        sites = [(la, lo, al) for la in (-85.0, -33.0, 0.0, 47.0, 85.0) for lo in (-179.5, 10.0, 151.0)
                 for al in (-500.0, 20000.0)]
        cruises = [(0.0, 45.0, 0.0), (30.0, 45.0, -5.0), (300.0, 200.0, 5.0), (300.0, 45.0, 0.0)]
        ldr = [0.1, 0.05, 0.025, 0.0125, 0.00625]
    for (la, lo, al), (sp, co, cl), att, weave, form, typ in itertools.product(
            sites, cruises, kin.ATTITUDES, (False, True), FORMS, ('rate', 'increment')):
        lo2 = lo if abs(lo) > 179 else lo + lon_shift
        # the time axis does not start at zero on every second lattice point (dyadic offset: exact stamps)
        t0 = 777.25 if (len(cases) % 2) else 0.0
        nonuni = len(cases) % 4 == 1          # nested non-uniform grids (intervals 0.5/1.5 dt, refined by midpoints)
        cases.append(dict(part='moving', lat=la, lon=lo2, alt=al, speed=sp, course=co, climb=cl,
                          attitude=att, weave=weave, form=form, type=typ, ladder=ldr, T=8.0,
                          phase=phase, t0=t0, nonuniform=nonuni))
    # long fast meridional flights (1 h): the latitude fixed-point iteration of the
    # initial-position form only matters here
    for la, co, form, typ in itertools.product((38.0, -38.0), (0.0, 180.0), FORMS, ('rate', 'increment')):
        if tier == 'quick' and form != 'lla0_vel':
            continue
        cases.append(dict(part='moving', long=True, lat=la, lon=20.0 + lon_shift, alt=9000.0, speed=280.0,
                          course=co, climb=0.0, attitude='tilt', weave=False, form=form, type=typ,
                          ladder=[8.0, 4.0, 2.0, 1.0], T=3600.0, phase=phase))
    # rest lattice
    lats = (-85.0, -40.0, 0.0, 55.0, 85.0)
    alts = (-500.0, 0.0, 20000.0)
    rolls = (-170.0, -30.0, 0.0, 100.0)
    pitches = (-80.0, 0.0, 45.0)
    heads = (-135.0, 0.0, 60.0, 179.0)
    if tier == 'quick':
        alts = (-500.0, 20000.0)
        rolls = (-170.0, 0.0, 100.0)
    for la, al, r, p, h, form, typ in itertools.product(lats, alts, rolls, pitches, heads, FORMS,
                                                        ('rate', 'increment')):
        cases.append(dict(part='rest', lat=la, lon=20.0 + lon_shift, alt=al, roll=r, pitch=p,
                          heading=h + 0.5 * (seed % 8), form=form, type=typ,
                          stamps='alternating' if len(cases) % 2 else 'uniform'))
    return cases


def call_generate(form, t, lla_deg, rph_deg, vel, typ):
    from pyins import sim
    if form == 'lla_vel':
        return sim.generate_imu(t, lla_deg, rph_deg, vel, typ)
    if form == 'lla_only':
        return sim.generate_imu(t, lla_deg, rph_deg, None, typ)
    return sim.generate_imu(t, lla_deg[0], rph_deg, vel, typ)


def structure(traj, imu, t, typ):
    out = []
    if list(traj.columns) != COLS:
        out.append('trajectory columns %s' % list(traj.columns))
    if list(imu.columns) != IMU_COLS:
        out.append('imu columns %s' % list(imu.columns))
    for nm, df in (('trajectory', traj), ('imu', imu)):
        if len(df) != len(t) or (np.asarray(df.index, dtype=float) != t).any():
            out.append('%s index is not the input time' % nm)
    if typ == 'increment' and len(imu) > 1 and (imu.values[0] != imu.values[1]).any():
        out.append('increment type does not duplicate its first sample')
    if not (np.isfinite(traj.values).all() and np.isfinite(imu.values).all()):
        out.append('non-finite output')
    return out


def run_moving(case):
    from pyins import strapdown
    m = _c01.build_motion(case)
    T, ldr, typ, form = case['T'], case['ladder'], case['type'], case['form']
    viol = []
    outs = []
    for dt in ldr:
        n = int(round(T / dt))
        t = np.arange(n + 1) * dt
        if case.get('nonuniform'):
            # coarsest grid: intervals alternate 0.5/1.5 of the nominal step; every finer grid splits each interval of
            # the coarser one at its midpoint (nested, still non-uniform)
            n0 = int(round(T / ldr[0]))
            t = np.concatenate([[0.0], np.cumsum(np.tile([0.5 * ldr[0], 1.5 * ldr[0]], n0 // 2))])
            for _ in range(ldr.index(dt)):
                t = np.sort(np.concatenate([t, 0.5 * (t[:-1] + t[1:])]))
            n = len(t) - 1
        t_user = t + case.get('t0', 0.0)        # the motion is the same, the user's clock is shifted
        lla = m.lla(t)
        lla_deg = np.column_stack([lla[:, 0] * geo.R2D, lla[:, 1] * geo.R2D, lla[:, 2]])
        rph_deg = m.rph(t) * geo.R2D
        vel = m.vel(t)
        snap = (t_user.copy(), lla_deg.copy(), rph_deg.copy(), vel.copy())
        traj, imu = call_generate(form, t_user, lla_deg, rph_deg, vel, typ)
        if any((a != b).any() for a, b in zip(snap, (t_user, lla_deg, rph_deg, vel))):
            viol.append(dict(sig='c03-arg-mutated', msg='generate_imu modified an input array'))
        for s in structure(traj, imu, t_user, typ):
            viol.append(dict(sig='c03-structure', msg=s))
        if viol and any(v['sig'] == 'c03-structure' for v in viol):
            return viol, {}
        # truth for the readings
        if typ == 'rate':
            w, f = m.imu(t)
        else:
            tp = np.concatenate([[t[0] - (t[1] - t[0])], t[:-1]])
            w, f = m.integrals(tp, t)
            w[0], f[0] = w[1], f[1]          # documented: first sample duplicated
        g = imu.values[:, :3]
        a = imu.values[:, 3:]
        # strapdown inversion
        inc = strapdown.compute_increments_from_imu(imu, typ)
        integ = strapdown.Integrator(traj.iloc[0])
        integ.integrate(inc)
        sol = integ.trajectory.values
        o = dict(dt=dt, t=t, g=g, a=a, w=w, f=f, traj=traj.values, sol=sol)
        if typ == 'increment' and form == 'lla_vel' and not case.get('long') and not case.get('nonuniform'):
            # interior accuracy per unit time of the increment readings vs that of the rate readings of the
            # same call arguments (the splines are the same): see the order oracle below
            _, imu_r = call_generate(form, t_user, lla_deg, rph_deg, vel, 'rate')
            wr, fr = m.imu(t)
            k = slice(int(0.2 * n), int(0.8 * n))
            o['interior'] = (np.abs(g[k] - w[k]).max() / dt, np.abs(a[k] - f[k]).max() / dt,
                             np.abs(imu_r.values[k, :3] - wr[k]).max(), np.abs(imu_r.values[k, 3:] - fr[k]).max())
        outs.append(o)
    # ---- errors and halving changes per quantity
    quantities = {}

    def add(name, E, H, floors):
        quantities[name] = (E, H, floors)

    def pos_m(d_lat_deg, d_lon_deg, d_alt, lat_deg, alt):
        rn, re = geo.radii(lat_deg * geo.D2R, alt)
        dl = (d_lon_deg + 180.0) % 360.0 - 180.0
        return np.sqrt((d_lat_deg * geo.D2R * rn) ** 2 + (dl * geo.D2R * re * np.cos(lat_deg * geo.D2R)) ** 2
                       + d_alt ** 2)

    def att_err(rph_a, rph_b):
        ca = kin._c_nb(*(rph_a * geo.D2R).T)
        cb = kin._c_nb(*(rph_b * geo.D2R).T)
        return _c01._angles(ca, cb)

    L = len(outs)
    inc_type = typ == 'increment'
    E = {k: [] for k in ('gyro', 'accel', 'traj_pos', 'traj_vel', 'inv_pos', 'inv_vel', 'inv_att')}
    H = {k: [] for k in E}
    F = {k: [] for k in E}
    for i, o in enumerate(outs):
        dt = o['dt']
        n_steps = len(o['t']) - 1
        # increment readings are compared per unit time (increment / dt = average over the interval): the average
        # over an interval is the MEAN of the averages over its two halves, so the telescoped law holds with unit
        # weights (for the raw increments the errors of the two halves add and the weights would be 2^j)
        per = np.concatenate([[o['t'][1] - o['t'][0]], np.diff(o['t'])])[:, None] if inc_type else 1.0
        E['gyro'].append((np.abs(o['g'] - o['w']) / per).max())
        E['accel'].append((np.abs(o['a'] - o['f']) / per).max())
        lla_true = m.lla(o['t'])
        E['traj_pos'].append(pos_m(o['traj'][:, 0] - lla_true[:, 0] * geo.R2D,
                                   o['traj'][:, 1] - lla_true[:, 1] * geo.R2D,
                                   o['traj'][:, 2] - lla_true[:, 2], o['traj'][:, 0], o['traj'][:, 2]).max())
        E['traj_vel'].append(np.linalg.norm(o['traj'][:, 3:6] - m.vel(o['t']), axis=1).max())
        d = o['sol'] - o['traj']
        E['inv_pos'].append(pos_m(d[:, 0], d[:, 1], d[:, 2], o['traj'][:, 0], o['traj'][:, 2]).max())
        E['inv_vel'].append(np.linalg.norm(d[:, 3:6], axis=1).max())
        E['inv_att'].append(att_err(o['sol'][:, 6:9], o['traj'][:, 6:9]).max())
        fa = 40 * EPS * R_EARTH / dt ** 2
        fg = 64 * EPS / dt
        F['gyro'].append(fg + (1e-16 / dt if inc_type else 0.0))
        F['accel'].append(fa)
        F['traj_pos'].append(64 * EPS * R_EARTH)
        if case.get('long') and form == 'lla0_vel':
            # the library integrates latitude by a fixed-point iteration that it stops at
            # ACCURACY = 0.01 m (sim.generate_imu); a position error drifting by that much over
            # the run biases the Hermite-spline acceleration by 6 * (drift per sample) / dt^2
            F['traj_pos'][-1] += 0.01
            F['accel'][-1] += 6 * 0.01 / (case['T'] * dt)
        F['traj_vel'].append(40 * EPS * R_EARTH / dt)
        F['inv_vel'].append(fa * dt * np.sqrt(n_steps) + 64 * EPS * 400 * np.sqrt(n_steps))
        F['inv_pos'].append(F['inv_vel'][-1] * case['T'] + 64 * EPS * R_EARTH * np.sqrt(n_steps))
        F['inv_att'].append(fg * dt * np.sqrt(n_steps) * 4 + 1e-13)
    for c, fn in zip(outs[:-1], outs[1:]):
        if inc_type:
            gs = fn['g'][1::2] + fn['g'][2::2]
            as_ = fn['a'][1::2] + fn['a'][2::2]
            dtc = np.diff(c['t'])[:, None]
            H['gyro'].append((np.abs(c['g'][1:] - gs) / dtc).max())
            H['accel'].append((np.abs(c['a'][1:] - as_) / dtc).max())
        else:
            H['gyro'].append(np.abs(c['g'] - fn['g'][::2]).max())
            H['accel'].append(np.abs(c['a'] - fn['a'][::2]).max())
        ft = fn['traj'][::2]
        dtr = c['traj'] - ft
        H['traj_pos'].append(pos_m(dtr[:, 0], dtr[:, 1], dtr[:, 2], ft[:, 0], ft[:, 2]).max())
        H['traj_vel'].append(np.linalg.norm(dtr[:, 3:6], axis=1).max())
        # inversion residual e(dt) = integrated - returned; H = |e(dt) - e(dt/2)| on common epochs
        ec = c['sol'] - c['traj']
        ef = (fn['sol'] - fn['traj'])[::2]
        dd = ec - ef
        H['inv_pos'].append(pos_m(dd[:, 0], dd[:, 1], dd[:, 2], ft[:, 0], ft[:, 2]).max())
        H['inv_vel'].append(np.linalg.norm(dd[:, 3:6], axis=1).max())
        # attitude residuals are rotations: compare the residual rotation vectors approximately by
        # the angle between the two integrated attitudes after removing the returned ones
        H['inv_att'].append(np.abs(att_err(c['sol'][:, 6:9], c['traj'][:, 6:9])
                                   - att_err(fn['sol'][::2, 6:9], ft[:, 6:9])).max())
    stats = {}
    if 'interior' in outs[0]:
        # An increment reading is the integral of the interpolant over one interval: per unit time it cannot be
        # of lower order than the interpolant's own rate/force readings ("within interpolation error").  Orders
        # are measured on the interior 60 % of the samples (end conditions of the splines excluded).
        for ch, nm, floor_i, floor_r in ((0, 'gyro', lambda d: 64 * EPS / d + 1e-13, lambda d: 64 * EPS / d + 1e-13),
                                         (1, 'accel', lambda d: 40 * EPS * R_EARTH / d ** 2, lambda d: 40 * EPS * R_EARTH / d ** 2)):
            ei = [(o['dt'], o['interior'][ch]) for o in outs if o['interior'][ch] > 30 * floor_i(o['dt'])]
            er = [(o['dt'], o['interior'][ch + 2]) for o in outs if o['interior'][ch + 2] > 30 * floor_r(o['dt'])]
            if len(ei) >= 3 and len(er) >= 3:          # a slope from two rungs next to the floor is not a measurement
                si = np.log(ei[0][1] / ei[-1][1]) / np.log(ei[0][0] / ei[-1][0])
                sr = np.log(er[0][1] / er[-1][1]) / np.log(er[0][0] / er[-1][0])
                stats['min_order_margin_' + nm] = float(si - sr)
                # gyro: same order as the rate readings at least.  accel: with position AND velocity supplied the
                # interpolant's velocity is exact at the knots, so the inertial velocity increment is exact and only
                # the rotation of the frame inside the interval sees the O(dt^2) acceleration error: one order
                # better than the rate readings (measured 0.89..1.1 over the lattice); an algebra slip in the
                # closed-form integrals (O(dt^2) per unit time) removes exactly this order.
                need = -0.7 if nm == 'gyro' else 0.4
                if si < sr + need:
                    viol.append(dict(sig='c03-increment-order:' + nm,
                                     msg='%s increments converge with order %.2f per unit time, the rate readings of '
                                         'the same motion with order %.2f: the integrals are less accurate than exact '
                                         'integration of the interpolant allows (errors/dt %s vs %s)'
                                         % (nm, si, sr, ['%.2e' % x[1] for x in ei], ['%.2e' % x[1] for x in er])))
    for q in E:
        if case.get('long') and q.startswith('inv_'):
            continue        # an hour of free-inertial drift is C01's subject, not the synthesiser's
        Hq = list(H[q])
        if q == 'inv_att':
            # scalar angle differences under-estimate the vector change: use the errors themselves
            Hq = [max(h, abs(a - b)) for h, a, b in zip(Hq, E[q][:-1], E[q][1:])]
        bad, tight = ladder.telescoped(E[q], Hq, F[q])
        stats['max_tight_' + q] = tight
        if bad:
            k, e, allowed = bad[0]
            viol.append(dict(sig='c03-halving:%s:%s' % (q, form if q.startswith('traj') else typ),
                             msg='%s: error %.3e at dt=%g exceeds the telescoped halving bound %.3e '
                                 '(errors %s, halving changes %s, floors %s)'
                                 % (q, e, ldr[k], allowed, ['%.2e' % x for x in E[q]],
                                    ['%.2e' % x for x in Hq], ['%.1e' % x for x in F[q]])))
    return viol, stats


def run_rest(case):
    dt = 0.5
    t = np.arange(0, 9) * dt
    if case.get('stamps') == 'alternating':
        t = np.concatenate([[0.0], np.cumsum(np.tile([0.25, 0.75], 4))])      # non-uniform sampling, same span
    n = len(t)
    dts = np.concatenate([[t[1] - t[0]], np.diff(t)])
    lla = np.tile([case['lat'], case['lon'], case['alt']], (n, 1))
    rph = np.tile([case['roll'], case['pitch'], case['heading']], (n, 1))
    vel = np.zeros((n, 3))
    typ = case['type']
    traj, imu = call_generate(case['form'], t, lla, rph, vel, typ)
    viol = [dict(sig='c03-structure', msg=s) for s in structure(traj, imu, t, typ)]
    lat = case['lat'] * geo.D2R
    c = kin._c_nb(case['roll'] * geo.D2R, case['pitch'] * geo.D2R, case['heading'] * geo.D2R)
    w_exp = c.T @ geo.earth_rate_n(lat)
    f_exp = -c.T @ np.array([0.0, 0.0, geo.grav(lat, case['alt'])])
    scale = dts[:, None] if typ == 'increment' else 1.0       # each increment spans ITS OWN interval
    eg = np.abs(imu.values[:, :3] - w_exp * scale).max()
    ea = np.abs(imu.values[:, 3:] - f_exp * scale).max()
    dt = float(np.min(dts))
    scale = float(np.max(dts)) if typ == 'increment' else 1.0
    # round-off of differentiating positions of |r| twice over dt, spline of a circle: (RATE dt)^2 relative
    tol_a = (40 * EPS * R_EARTH / dt ** 2 + 0.034 * (geo.RATE * dt) ** 2) * scale
    tol_g = (64 * EPS / dt + geo.RATE * (geo.RATE * dt) ** 2) * scale
    stats = dict(max_tight_rest_gyro=eg / tol_g, max_tight_rest_accel=ea / tol_a)
    if eg > tol_g:
        viol.append(dict(sig='c03-rest-gyro', msg='body at rest: gyro differs from Earth rate by %.3e '
                         '(tol %.1e)' % (eg, tol_g)))
    if ea > tol_a:
        viol.append(dict(sig='c03-rest-accel', msg='body at rest: accel differs from the reaction to '
                         'gravity by %.3e (tol %.1e)' % (ea, tol_a)))
    # returned trajectory equals the input motion
    dpos = np.abs(traj[['lat', 'lon']].values - lla[:, :2]).max()
    if dpos > 1e-9 or np.abs(traj['alt'].values - case['alt']).max() > 1e-6 or \
            np.abs(traj[['VN', 'VE', 'VD']].values).max() > 40 * EPS * R_EARTH / dt:
        viol.append(dict(sig='c03-rest-trajectory', msg='returned trajectory of a body at rest moves'))
    return viol, stats


def run_case(case):
    if case['part'] == 'moving':
        viol, stats = run_moving(case)
        nontrivial = case['speed'] > 0 or case['attitude'] != 'tilt' or case['weave']
    else:
        viol, stats = run_rest(case)
        nontrivial = not (case['roll'] == 0 and case['pitch'] == 0)
    first = {}
    for v in viol:
        first.setdefault(v['sig'], v)
    key = repr(sorted((k, v) for k, v in case.items() if k not in ('ladder',)))
    return dict(viol=list(first.values()), key=key, nontrivial=nontrivial, stats=stats)

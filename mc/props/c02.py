"""C02 - Integrator result is independent of call history (chunks, predict, restart).

Engine E1 (mc/seqx.py): deviation-bounded breadth-first exploration of call histories on
live Integrator objects with tiny initial capacities and bounds-checked kernels; every
transition is compared bit for bit with a fresh default-capacity integrator that is
started from the most recently supplied state and given the increments in ONE call.
"""
from mc import seqx

ID = 'C02'
LEVEL = 'model_checking'
CASE_TIMEOUT = 6000
BATCH = 1
RULE = ('one case = one (initial capacity, altitude mode, increments kind) configuration; inside it '
        'ALL histories over {I0,I1,I2,I3,Irest,predict,set_pva A,set_pva B} (creeping-platform configurations: set_pva of a small change, set_pva(get_pva())) on a 10-row table with at '
        'most d deviations from the default I1 are explored breadth-first on live objects, states '
        'merged by a content hash of trajectory + internal buffers + capacity. Non-trivial/distinct = '
        'distinct reachable states (content hashes) summed over configurations. Unobserved histories (part = blind): '
        'ALL histories with <= d deviations executed depth-first on objects that are never read between the calls; after '
        'every prefix each first observation of {get_time, get_pva, trajectory, empty integrate, none} is tried on its '
        'own copy, then the remaining increments are integrated in one call and the result compared.')
ASSUMPTIONS = [
    'NUMBA_BOUNDSCHECK=1: an out-of-capacity kernel write raises IndexError instead of corrupting memory',
    'bitwise comparison of two executions on the same machine',
    'reference = fresh Integrator (capacity 10000) started from the supplied state, one integrate call',
]
PREFIX = 'c02-'


def gen_cases(tier, seed):
    dev = 2 if tier == 'quick' else 4
    cases = []
    for cap in (1, 2, 3, 4, 6):
        for wa in (True, False):
            for kind in ('normal', 'vertical', 'slow') + (('deadband', 'dupstamps', 'seam') if cap in (2, 3) or tier == 'thorough' else ()):
                # quick: d <= 2 everywhere, d <= 3 where every call crosses or meets the capacity (cap 2);
                # thorough: d <= 4 everywhere, d <= 5 for capacity 2
                d_here = dev + 1 if cap == 2 else dev
                # the creeping-platform configurations overwrite with SMALL changes: Se = 0.1 m / 2 cm / 0.1 mm/s,
                # Sf = set_pva(get_pva()); the others with large ones
                cases.append(dict(capacity=cap, wa=wa, kind=kind, init_vd=0.25, max_dev=d_here,
                                  set_ops=['Se', 'Sf'] if kind == 'slow' else ['Sa', 'Sb']))
    # unobserved histories (engine E1b): no state is read between the calls, every first observation is tried
    # after every prefix.  quick: <= 1 deviation everywhere, <= 2 for capacity 2; thorough: <= 2 / <= 3
    for cap in (1, 2, 4):
        for wa in (True, False):
            for kind in ('normal',) if tier == 'quick' else ('normal', 'deadband', 'dupstamps'):
                d_blind = (2 if cap == 2 and kind == 'normal' else 1) + (0 if tier == 'quick' else 1)
                cases.append(dict(part='blind', capacity=cap, wa=wa, kind=kind, init_vd=0.25, max_dev=d_blind,
                                  set_ops=['Sa', 'Sb'] if cap != 4 else ['Sa', 'Se', 'Sf']))
    if tier == 'thorough':
        # capacity larger than the table (no growth at all) as the control configuration
        for wa in (True, False):
            cases.append(dict(capacity=16, wa=wa, kind='normal', init_vd=0.25, max_dev=dev,
                              set_ops=['Sa', 'Sb']))
    return cases


def _run(case, prefix):
    ex = seqx.Explorer(case['capacity'], case['wa'], case['kind'], case.get('init_vd', 0.25),
                       case.get('set_ops', ['Sa', 'Sb']), case.get('max_dev', 2))
    if case.get('history') == ['SIBLINGS']:
        ex.run_siblings()
    elif 'history' in case:
        ex.replay(case['history'])
    elif case.get('part') == 'blind' or case.get('blind'):
        ex.run_blind(case.get('max_dev', 1))
    else:
        ex.run()
    if 'history' not in case:
        ex.run_siblings()          # several live integrators advanced alternately (every configuration)
    viol = [v for v in ex.viol if v['sig'].startswith(prefix)]
    # one entry per signature is enough (each carries its own minimal history; BFS order
    # means the first one found has the fewest deviations)
    first = {}
    for v in viol:
        if v['sig'] not in first or len(v['replay_case']['history']) < len(first[v['sig']]['replay_case']['history']):
            first[v['sig']] = v
    return ex, list(first.values())


def run_case(case):
    ex, viol = _run(case, PREFIX)
    return dict(viol=viol, key=None, nontrivial=True,
                stats=dict(states=ex.n_states, transitions=ex.n_trans, max_depth=ex.max_depth,
                           min_completed_deviation_bound=ex.completed_dev,
                           buffer_growths=ex.growths,
                           **{'op_' + k: n for k, n in ex.ops_count.items()}),
                states=ex.n_states, transitions=ex.n_trans)


def finalize(cases, results, tier):
    st = sum(r.get('states', 0) for r in results)
    tr = sum(r.get('transitions', 0) for r in results)
    return dict(states=st, transitions=tr, traces_validated_against_impl=tr,
                distinct_nontrivial=st,
                deviation_bound_completed=min((r['stats'].get('min_completed_deviation_bound', -1)
                                               for r in results), default=-1),
                deviation_bound_per_configuration={'capacity %d %s %s' % (c['capacity'], '3d' if c['wa'] else '2d', c['kind']): r['stats'].get('min_completed_deviation_bound') for c, r in zip(cases, results)},
                explanation='every transition is an execution of the real method on a live object; '
                            'states = distinct content hashes per configuration, summed')

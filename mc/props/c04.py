"""C04 - INS error model is the linearisation of actual strapdown error growth.

Engine E3: full product of operating points x all error directions x both altitude modes.
Measured side: central-difference sensitivity of the REAL integrator (nominal and perturbed
runs on exact kinematic increments, errors applied/read in the library's own error-state
coordinates written out in mc/truth/errstate.py).  Model side: system_matrices along the
nominal trajectory propagated exactly (augmented exponential).  Oracle: entry-wise
|S - Phi_model| <= Tol with an a-priori neglected-term matrix; propagate_errors against
the same exponential product.
"""
import itertools

import numpy as np
import pandas as pd

from mc.truth import errstate, geo, kin, lin
from mc.props import c01 as _c01

ID = 'C04'
LEVEL = 'exploration'
CASE_TIMEOUT = 900
BATCH = 2
EPS = np.finfo(float).eps
COLS = _c01.COLS
RULE = ('full product lat x speed x course x alt x attitude x vertical speed (one case per operating point); '
        'inside: both altitude modes (2D on the level points), all 9 (7) initial error directions and 6 '
        'sensor-error directions, each +-; horizons tau; Non-trivial = speed > 0 or non-level attitude; '
        'distinct = distinct operating points.')
ASSUMPTIONS = ['errors measured in the library\'s own coordinates (errstate, bound to correct_pva by C05)',
               'exact increments from the closed-form kinematic truth (kin)',
               'neglected-term matrix N written a priori from what the modified phi-angle model omits '
               '(terms of relative order |V|/R, Earth-rate/transport-rate variation with position, gravity '
               'variation with latitude); blocks are decided only where they exceed it (block observability '
               'is reported)']
EPS_X = np.array([100.0, 100.0, 100.0, 1e-2, 1e-2, 1e-2, 1e-5, 1e-5, 1e-5])
IDX2 = [0, 1, 3, 4, 6, 7, 8]
DT = 0.0025
ATTS = {'level': (0.0, 0.0), 'tilt1': (40.0, -60.0), 'tilt2': (-120.0, 80.0)}


def gen_cases(tier, seed):
    ph = seed % 8
    if tier == 'quick':
        lats, speeds, courses = (-80.0, -35.0, 0.0, 50.0), (0.0, 30.0, 300.0), (45.0 + ph, 200.0)
        alts, atts, vds, taus = (0.0, 20000.0), tuple(ATTS), (0.0, 5.0), (0.5,)
    else:
        lats, speeds, courses = (-80.0, -35.0, 0.0, 50.0, 80.0), (0.0, 30.0, 300.0), (45.0 + ph, 200.0)
        alts, atts, vds, taus = (0.0, 20000.0), tuple(ATTS), (0.0, 5.0), (0.25, 0.5)
    cases = []
    for la, sp, co, al, at, vd, tau in itertools.product(lats, speeds, courses, alts, atts, vds, taus):
        if sp == 0.0 and co != courses[0]:
            continue
        cases.append(dict(lat=la, lon=20.0 + 7.0 * ph, alt=al, speed=sp, course=co, att=at, climb=vd, tau=tau))
    return cases


def nominal_motion(case):
    lat0 = case['lat'] * geo.D2R
    rn, re = geo.radii(lat0, case['alt'])
    crs = case['course'] * geo.D2R
    dlat = case['speed'] * np.cos(crs) / rn
    dlon = case['speed'] * np.sin(crs) / (re * np.cos(lat0))
    roll, pitch = ATTS[case['att']]
    return kin.Motion(kin.Sines(lat0, dlat), kin.Sines(case['lon'] * geo.D2R, dlon),
                      kin.Sines(case['alt'], case['climb']),
                      kin.Sines(roll * geo.D2R), kin.Sines(pitch * geo.D2R), kin.Sines(crs + 0.3))


def increments_of(m, tau, gb=None, ab=None):
    from pyins import strapdown
    n = int(round(tau / DT))
    t = np.arange(n + 1) * DT
    w, f = m.imu(t)
    if gb is not None:
        w = w + gb
    if ab is not None:
        f = f + ab
    imu = pd.DataFrame(np.hstack([w, f]), index=pd.Index(t, name='time'), columns=_c01.IMU_COLS)
    return strapdown.compute_increments_from_imu(imu, 'rate')


def integrate(pva_arr, inc, wa):
    from pyins import strapdown
    integ = strapdown.Integrator(pd.Series(pva_arr, index=COLS, name=0.0), wa)
    integ.integrate(inc)
    return integ.trajectory


def embed(x, wa, p):
    if wa:
        return np.asarray(x, dtype=float)
    x9 = np.zeros(9)
    x9[IDX2] = x
    x9[5] = p[4] * x9[6] - p[3] * x9[7]
    return x9


def measure(case, wa):
    """Sensitivity of the real integrator: S (n x n), Gamma_gyro, Gamma_accel (n x 3) and the nominal
    trajectory."""
    m = nominal_motion(case)
    tau = case['tau']
    inc = increments_of(m, tau)
    p0 = _c01.pva_at(m, 0.0).values.astype(float)
    if not wa:
        p0[5] = 0.0
    nom = integrate(p0, inc, wa)
    pf = nom.values[-1]
    idx = list(range(9)) if wa else IDX2
    n = len(idx)
    S = np.zeros((n, n))
    for k in range(n):
        x = np.zeros(n)
        x[k] = EPS_X[idx[k]]
        ea = errstate.errstate(integrate(errstate.uncorrect(p0, embed(x, wa, p0)), inc, wa).values[-1], pf)
        eb = errstate.errstate(integrate(errstate.uncorrect(p0, embed(-x, wa, p0)), inc, wa).values[-1], pf)
        S[:, k] = (ea - eb)[idx] / (2 * x[k])
    Gg, Ga = np.zeros((n, 3)), np.zeros((n, 3))
    for k in range(3):
        for G, e, which in ((Gg, 1e-6, 'g'), (Ga, 1e-4, 'a')):
            d = np.zeros(3)
            d[k] = e
            r = []
            for sgn in (1, -1):
                inc2 = increments_of(m, tau, gb=sgn * d if which == 'g' else None,
                                     ab=sgn * d if which == 'a' else None)
                r.append(errstate.errstate(integrate(p0, inc2, wa).values[-1], pf)[idx])
            G[:, k] = (r[0] - r[1]) / (2 * e)
    return S, Gg, Ga, nom


def omitted_term(nom, wa):
    """The one first-order term of the DV <- PHI block that the library's matrix does not carry, derived (not fitted):

    with DV = dv + phi x v, d(phi)/dt = -(Omega + rho) x phi - ..., d(dv)/dt = -phi x (C f) - (2 Omega + rho) x dv + ...
    and C f = dv/dt - g + (2 Omega + rho) x v, the terms in phi are
        phi x g - phi x (w2 x v) + w2 x (phi x v) - ((Omega + rho) x phi) x v,   w2 = 2 Omega + rho,
    and by the Jacobi identity w2 x (phi x v) - phi x (w2 x v) = (w2 x phi) x v, so what is left besides phi x g is
        (Omega x phi) x v = -[v x][Omega x] phi,            size |Omega||v| (2e-2 m/s^2 per rad at 300 m/s, 0.2 % of g).
    The library has F[DV, PHI] = -[g x] only.  Measured on the lattice: |S - Phi| in this block is up to 2.1e-2 /s with
    the library's matrix and <= 7e-6 /s with this term added (mc/props/c04.py history, DESIGN.md 11.9)."""
    def skew(a):
        return np.array([[0.0, -a[2], a[1]], [a[2], 0.0, -a[0]], [-a[1], a[0], 0.0]])
    out = []
    for p in nom.values:
        lat = p[0] * geo.D2R
        om = geo.RATE * np.array([np.cos(lat), 0.0, -np.sin(lat)])
        d9 = np.zeros((9, 9))
        d9[3:6, 6:9] = -skew(p[3:6]) @ skew(om)
        if wa:
            out.append(d9)
        else:
            # 7-state form: rows of the kept states, columns through the embedding x9 = E x7 (DV3 = VE phi1 - VN phi2)
            E = np.zeros((9, 7))
            for k, j in enumerate(IDX2):
                E[j, k] = 1.0
            E[5, IDX2.index(6)] = p[4]
            E[5, IDX2.index(7)] = -p[3]
            out.append(d9[IDX2, :] @ E)
    return np.array(out)


def model(nom, wa, with_omitted=False):
    """Exact propagation of the model along the nominal trajectory: product of augmented exponentials."""
    from pyins import error_model
    em = error_model.InsErrorModel(wa)
    F, Bg, Ba = em.system_matrices(nom)
    if with_omitted:
        F = F + omitted_term(nom, wa)
    n = F.shape[1]
    A = np.eye(n + 6)
    t = np.asarray(nom.index, dtype=float)
    for i in range(len(nom) - 1):
        Z = np.zeros((n + 6, n + 6))
        Z[:n, :n] = 0.5 * (F[i] + F[i + 1])
        Z[:n, n:n + 3] = 0.5 * (Bg[i] + Bg[i + 1])
        Z[:n, n + 3:] = 0.5 * (Ba[i] + Ba[i + 1])
        A = np.asarray(lin.expm_ld(Z * (t[i + 1] - t[i])), dtype=float) @ A
    return A[:n, :n], A[:n, n:n + 3], A[:n, n + 3:], F, Bg, Ba


def neglected(case, wa):
    """A-priori scale (per second) of the couplings the modified phi-angle model omits."""
    V = np.hypot(case['speed'], case['climb'])
    R = 6.35e6
    lat = case['lat'] * geo.D2R
    tl = 1 + abs(np.tan(lat))
    w = geo.RATE + V / R * tl
    iR = 1 / R
    dgdlat = 0.052 * abs(np.sin(2 * lat)) + 1e-4          # |d g / d lat| (Somigliana), m/s^2 per rad
    N = np.zeros((9, 9))
    DR, DV, PH = slice(0, 3), slice(3, 6), slice(6, 9)
    N[DR, DR] = 3 * V * iR * tl                 # rotation of the NED frame under displacement (rho x dr)
    N[DV, DR] = 3 * (w * V * tl + dgdlat) * iR  # variation of Earth/transport rate and gravity with position
    N[5, 2] += 2 * 9.8 / 6.378e6 * (2 * abs(case['alt']) / 6.378e6 + 3 * 0.0053)   # 2g/A taken at alt=0, GE
    # DV <- DV: the Coriolis/transport block -(2 Omega + rho) x is exact at first order in the modified model
    # (measured discrepancy over the whole lattice <= 2e-9 /s at 300 m/s, i.e. only the tau^2 and dt terms
    # below); an a-priori slack of |V|/R here would hide a wrong factor on rho (seeded change C04-transport-
    # rate-twice), so none is given
    N[DV, DV] = 0.0
    # DV <- PHI: the only first-order term besides -[g x] is (Omega x phi) x v (see omitted_term); the comparison is
    # made against the model both without and with it, so no slack is needed here (3 |V| w, the former a-priori
    # scale, was 5 times the omitted term and hid the seeded change C04-vn-ve-swapped-in-7-state-reduction)
    N[DV, PH] = 0.0
    N[PH, DR] = 3 * (V * iR * iR * tl * tl + geo.RATE * iR * 0)   # d rho / d position
    N[PH, DV] = 0.0
    N[PH, PH] = 0.0
    if not wa:
        N = N[np.ix_(IDX2, IDX2)]
    return N


ERR_COLS = ['north', 'east', 'down', 'VN', 'VE', 'VD', 'roll', 'pitch', 'heading']


def propagate_checks(case, v, stats):
    """error_model.propagate_errors: (a) converges (telescoped halving law in dt) to the exact propagation
    of the model; (b) its output tables are consistent; (c) it predicts the actual error growth of the
    integrator for small errors (mismatch second order in the error size)."""
    from pyins import error_model, transform
    from mc import ladder
    m = nominal_motion(case)
    tau = 2.0
    modes = [True] + ([False] if case['climb'] == 0.0 else [])
    e_out = pd.Series([30.0, -20.0, 10.0, 0.3, -0.2, 0.1, 0.05, -0.08, 0.2], index=ERR_COLS)
    gb = np.array([2e-5, -1e-5, 3e-5])
    ab = np.array([2e-3, 1e-3, -3e-3])
    dts = [0.04, 0.02, 0.01, 0.005]
    for wa in modes:
        eo = e_out.copy()
        if not wa:
            eo['down'] = 0.0
            eo['VD'] = 0.0
        finals = []
        for dt in dts:
            n = int(round(tau / dt))
            # non-uniform stamps: intervals alternate 0.5 dt / 1.5 dt (halving dt halves every interval)
            t = np.concatenate([[0.0], np.cumsum(np.tile([0.5 * dt, 1.5 * dt], n // 2))])
            lla = m.lla(t)
            traj = pd.DataFrame(np.column_stack([lla[:, 0] * geo.R2D, lla[:, 1] * geo.R2D, lla[:, 2], m.vel(t),
                                                 m.rph(t) * geo.R2D]), index=pd.Index(t, name='time'),
                                columns=COLS)
            snap = traj.values.copy()
            te, me = error_model.propagate_errors(traj, eo, gb, ab, with_altitude=wa)
            if (traj.values != snap).any():
                v('c04-arg-mutated', 'propagate_errors modified the trajectory')
            em = error_model.InsErrorModel(wa)
            if list(me.columns) != em.states or list(te.columns) != ERR_COLS or \
                    (np.asarray(me.index) != t).any() or (np.asarray(te.index) != t).any():
                v('c04-propagate-schema', 'propagate_errors tables have the wrong columns or index')
                return
            To = em.transform_to_output(traj)
            if np.abs(te.values - np.einsum('nij,nj->ni', To, me.values)).max() > 1e-9:
                v('c04-propagate-consistency', 'trajectory_error is not transform_to_output @ model_error')
            finals.append((traj, me.values[-1], te))
        # exact propagation of the model on the finest trajectory
        trajf = finals[-1][0]
        Phi, Mg, Ma, F, Bg, Ba = model(trajf, wa)
        x0 = error_model.InsErrorModel(wa).transform_to_internal(trajf.iloc[0]) @ eo.values
        x_ref = Phi @ x0 + Mg @ gb + Ma @ ab
        scale = np.abs(x_ref) + np.abs(Phi) @ np.abs(x0) * 1e-3 + 1e-12
        E = [float((np.abs(f[1] - x_ref) / scale).max()) for f in finals]
        H = [float((np.abs(a[1] - b[1]) / scale).max()) for a, b in zip(finals[:-1], finals[1:])]
        # the reference is itself built on the finest grid: its own discretisation is O(dt^2) of that grid
        bad, tight = ladder.telescoped(E, H, [1e-9 + 0.25 * H[-1]] * len(E))
        stats['max_tight_propagate'] = max(stats.get('max_tight_propagate', 0.0), tight)
        if bad:
            v('c04-propagate-convergence:%s' % ('3d' if wa else '2d'),
              'propagate_errors does not converge to the exact propagation of the model: relative errors %s '
              'down the dt ladder %s, halving changes %s' % (['%.2e' % x for x in E], dts, ['%.2e' % x for x in H]))
        # (c) against the real integrator on the finest grid, ladder in the error size
        mis = []
        for sz in (1.0, 0.1, 0.01):
            from pyins import sim
            inc = increments_of_dt(m, tau, dts[-1], gb * sz, ab * sz)
            inc0 = increments_of_dt(m, tau, dts[-1])
            p0 = trajf.iloc[0].copy()
            if not wa:
                p0['VD'] = 0.0
            pe = sim.perturb_pva(p0, eo * sz)
            nom = integrate(p0.values, inc0, wa)
            per = integrate(pe.values, inc, wa)
            actual = transform.compute_state_difference(per, nom).iloc[-1].values.astype(float)
            te, _ = error_model.propagate_errors(nom, eo * sz, gb * sz, ab * sz, with_altitude=wa)
            pred = te.iloc[-1].values.astype(float)
            unit = np.array([10.0, 10.0, 10.0, 0.1, 0.1, 0.1, 0.05, 0.05, 0.05]) * sz
            mis.append(float((np.abs(actual - pred) / unit).max()))
        stats['max_propagate_mismatch_small'] = max(stats.get('max_propagate_mismatch_small', 0.0), mis[-1])
        if mis[-1] > 0.02:
            v('c04-propagate-vs-integrator:%s' % ('3d' if wa else '2d'),
              'propagate_errors does not predict the actual error growth of the integrator for small errors: '
              'mismatch (units of the error size) %s for sizes 1, 0.1, 0.01' % ['%.2e' % x for x in mis])
        if mis[0] > 10 * mis[-1] + 0.02 and not (mis[1] < mis[0]):
            v('c04-propagate-nonlinear-trend', 'mismatch does not fall with the error size: %s' % mis)


def increments_of_dt(m, tau, dt, gb=None, ab=None):
    from pyins import strapdown
    n = int(round(tau / dt))
    t = np.arange(n + 1) * dt
    w, f = m.imu(t)
    if gb is not None:
        w = w + gb
    if ab is not None:
        f = f + ab
    imu = pd.DataFrame(np.hstack([w, f]), index=pd.Index(t, name='time'), columns=_c01.IMU_COLS)
    return strapdown.compute_increments_from_imu(imu, 'rate')


def run_case(case):
    from pyins import error_model
    viol = []
    stats = {}

    def v(sig, msg):
        viol.append(dict(sig=sig, msg=msg))

    names9 = ['DR1', 'DR2', 'DR3', 'DV1', 'DV2', 'DV3', 'PHI1', 'PHI2', 'PHI3']
    modes = [True] + ([False] if case['climb'] == 0.0 else [])
    tau = case['tau']
    for wa in modes:
        S, Gg, Ga, nom = measure(case, wa)
        Phi, Mg, Ma, F, Bg, Ba = model(nom, wa)
        n = len(S)
        names = names9 if wa else [names9[i] for i in IDX2]
        Mabs = np.abs(F).max(axis=0)
        N = neglected(case, wa)
        ex = EPS_X if wa else EPS_X[IDX2]
        # round-off floor of a central difference: position in degrees (ulp 3e-9 m), velocity, attitude
        fl_state = np.array([2e-8, 2e-8, 1e-9, 64 * EPS * 400, 64 * EPS * 400, 64 * EPS * 400,
                             1e-13, 1e-13, 1e-13])
        fl_state = fl_state if wa else fl_state[IDX2]
        floor = fl_state[:, None] / ex[None, :] * np.sqrt(len(nom))
        Tol = tau * N + tau ** 2 * (N @ Mabs + Mabs @ N) + DT * tau * (Mabs @ Mabs) + floor \
            + 1e-6 * np.abs(Phi)
        # the library's matrix, or the library's matrix plus the omitted first-order term: a model that carries the
        # term is as right as one that does not (entry by entry the closer of the two counts)
        Phi2, Mg2, Ma2 = model(nom, wa, with_omitted=True)[:3]
        E = np.minimum(np.abs(S - Phi), np.abs(S - Phi2))
        stats['max_omitted_term_effect'] = max(stats.get('max_omitted_term_effect', 0.0), float(np.abs(Phi2 - Phi).max()))
        ratio = E / Tol
        stats['max_tight_S'] = max(stats.get('max_tight_S', 0.0), float(ratio.max()))
        if (E > Tol).any():
            i, j = np.unravel_index(np.argmax(ratio), E.shape)
            v('c04-sensitivity:%s<-%s:%s' % (names[i][:-1], names[j][:-1], '3d' if wa else '2d'),
              'measured sensitivity d %s / d %s = %.6e, model %.6e (|diff| %.3e > tol %.3e; tau=%g, '
              'with_altitude=%s)' % (names[i], names[j], S[i, j], Phi[i, j], E[i, j], Tol[i, j], tau, wa))
        # forced responses to constant sensor errors
        Ncol = N.max(axis=1)
        for G, M, M2, B, nm, e_in in ((Gg, Mg, Mg2, Bg, 'gyro', 1e-6), (Ga, Ma, Ma2, Ba, 'accel', 1e-4)):
            Babs = np.abs(B).max(axis=0)
            # the forced response is int Phi(tau - s) B ds: the state tolerance acts on |B| for at most tau,
            # plus the integrator's own O(dt) discretisation of the forcing
            TolG = tau * (Tol @ Babs) + DT * tau * (Mabs @ Babs) + DT * Babs \
                + fl_state[:, None] / e_in * np.sqrt(len(nom)) + 1e-6 * np.abs(M)
            EG = np.minimum(np.abs(G - M), np.abs(G - M2))
            r = EG / TolG
            stats['max_tight_' + nm] = max(stats.get('max_tight_' + nm, 0.0), float(r.max()))
            if (EG > TolG).any():
                i, j = np.unravel_index(np.argmax(r), EG.shape)
                v('c04-forced-response:%s:%s:%s' % (nm, names[i][:-1], '3d' if wa else '2d'),
                  'response of %s to a constant %s error on axis %d: measured %.6e, model %.6e (tol %.3e; '
                  'with_altitude=%s)' % (names[i], nm, j, G[i, j], M[i, j], TolG[i, j], wa))
        # block observability: how much larger than the tolerance each model entry is
        obs = np.abs(Phi - np.eye(n)) / Tol
        for i in range(n):
            for j in range(n):
                stats['max_obs_%s_%s' % (names[i], names[j])] = max(
                    stats.get('max_obs_%s_%s' % (names[i], names[j]), 0.0), float(obs[i, j]))
    propagate_checks(case, v, stats)
    first = {}
    for x in viol:
        first.setdefault(x['sig'], x)
    nontrivial = case['speed'] > 0 or case['att'] != 'level'
    return dict(viol=list(first.values()), key=repr(sorted(case.items())), nontrivial=nontrivial, stats=stats)


def finalize(cases, results, tier):
    obs = {}
    for r in results:
        for k, val in r['stats'].items():
            if k.startswith('max_obs_'):
                obs[k[8:]] = max(obs.get(k[8:], 0.0), val)
    weak = sorted(k for k, val in obs.items() if 0 < val < 10)
    return dict(block_observability={k: round(val, 2) for k, val in sorted(obs.items())},
                entries_not_sharply_decided=weak)

"""C12 - feedback filter: transparent without data, first-order equal to feedforward,
re-runs reproducible.

(a) transparency (E2, exact): every schedule whose samples all lie outside [start, end)
    (before start, exactly at the end epoch, after the end; also [] and None) x time steps x
    sensor-model variants x altitude modes: trajectory bit-identical to plain integration.
(b) first-order equivalence (E3, ladder in the error scale s): (FB - FF) / sd shrinks in
    proportion to s down to a stated discretisation floor; sd ratios converge like s.
(c) re-run determinism (E1, exact): all call sequences of length <= 3 over {FB, FF} sharing the
    same model objects (plus an update_estimates poke): every run bit-identical to the same
    call with fresh model objects.
"""
import itertools

import numpy as np
import pandas as pd

from mc import schedx

ID = 'C12'
LEVEL = 'exploration'
CASE_TIMEOUT = 1200
BATCH = 4
RULE = ('(a) all subsets of <= M of the 9 out-of-span samples (3 slots x 3 sensors) x 3 IMU patterns x 4 time '
        'steps x 2 modes x model variants {none, bias, walk, sm} + defaults forms; (b) motion x measurement mix '
        'x model class x time step x mode, each on the error-scale ladder {1, 0.1, 0.01}; (c) all sequences of '
        'length <= 3 over {FB, FF} with shared models. Non-trivial = at least one sample / measurement present; '
        'distinct = distinct tuples.')
ASSUMPTIONS = ['(b): reference trajectory = the integrator\'s own output on clean increments, measurements on IMU '
               'epochs, all injected errors and sigmas proportional to s',
               '(b): residual floor at s = 0.01: max |(FB-FF)/sd| <= 0.6 and rms <= 0.1 are the two fitted constants of the '
               'framework (measured 0.235 / 0.037 at most over all 240 scenarios; it is the first-order accuracy of the '
               'error model itself, in units of sd, and does not depend on s): it comes from the feedforward filter\'s piecewise-constant transition over a step',
               'bitwise comparisons are between two executions on the same machine']


FLOOR = 0.6        # max over components and time of |FB - FF| / sd at s = 0.01 (measured <= 0.235 over all 240 scenarios)
FLOOR_RMS = 0.1    # its root mean square (measured <= 0.037)


def gen_cases(tier, seed):
    cases = []
    n = 3
    out_slots = [0, 4 * n + 1, 4 * n + 2]
    alpha = [(s, k) for s in out_slots for k in schedx.SENSORS]
    m = 2 if tier == 'quick' else 9
    subsets = [c for r in range(m + 1) for c in itertools.combinations(alpha, r)]
    for pattern in ('uniform', 'gap', 'irregular'):
        for step in schedx.STEPS:
            for wa in (True, False):
                for models in ('none', 'bias', 'walk', 'sm'):
                    for sub in subsets:
                        if tier == 'quick' and len(sub) == 2 and models in ('none', 'walk') and not wa:
                            continue
                        cases.append(dict(part='transparent', pattern=pattern, n=n, t0=0.0, wa=wa, step=step,
                                          samples=[list(x) for x in sub], models=models, form='list'))
                    for form in ('none', 'empty', 'omitted'):
                        cases.append(dict(part='transparent', pattern=pattern, n=n, t0=0.0, wa=wa, step=step,
                                          samples=[], models=models, form=form))
    motions = (0, 1, 2, 3)
    # PVs: velocity fixes share their time stamps with position fixes; P0V: the first position fix is AT the initial time
    # PVc: position and velocity fixes at two DIFFERENT stamps inside one IMU interval (0.3 and 0.7 of it), i.e. between
    # the IMU samples: two feedback corrections before the next increment is integrated
    mixes = ('P', 'PV', 'PVB', 'PVs', 'P0V', 'PVc')
    # subset: bias states on axes that are not a prefix of x, y, z; sm2: accelerometer scale factors and misalignments
    classes = ('bias', 'sm', 'subset', 'sm2')
    steps = (0.5, 1.0)
    # 0.03 s: a covariance step below the 0.05 s IMU interval (one increment per step), on the fixed scenarios only
    for mo, mix, cl, st, wa in itertools.product(motions + (4,), mixes, classes, steps, (True, False)):
        if (mix == 'PVc') != (mo == 4):
            continue            # between-sample fixes only on the unaccelerated motion (and only they there)
        k = mo + mixes.index(mix) + classes.index(cl) + steps.index(st) + int(wa)
        always = (mo == 1 and mix == 'PVB' and cl == 'sm2' and st == 0.5) or (mo == 4 and st == 0.5 and wa and cl in ('bias', 'sm')) or (mo == 0 and st == 0.5 and ((mix in ('PVs', 'P0V') and cl == 'bias') or (mix == 'PVB' and cl == 'sm'))) or \
            (mix == 'PV' and st == 1.0 and ((mo == 3 and cl == 'bias') or (mo == 1 and cl == 'subset')))
        if tier == 'quick' and (k + seed) % 4 != 0 and not always:
            continue
        cases.append(dict(part='equivalence', motion=mo, mix=mix, cls=cl, step=st, wa=wa))
    for mo, mix, cl, wa in ((0, 'PV', 'bias', True), (1, 'PVB', 'sm', False), (3, 'P', 'subset', True)):
        cases.append(dict(part='equivalence', motion=mo, mix=mix, cls=cl, step=0.03, wa=wa))
    for L in (1, 2, 3):
        for seq in itertools.product(('FB', 'FF'), repeat=L):
            cases.append(dict(part='rerun', seq=list(seq), poke=False))
    # the same measurement and model objects under alternating altitude modes ('2' = with_altitude=False)
    for seq in (['FB', 'FB2', 'FB'], ['FF2', 'FF', 'FF2'], ['FB2', 'FF', 'FB'], ['FF', 'FB2']):
        cases.append(dict(part='rerun', seq=seq, poke=False))
    cases.append(dict(part='rerun', seq=['FB', 'FB'], poke=True))
    cases.append(dict(part='rerun', seq=['FF', 'FB'], poke=True))
    return cases


# ------------------------------------------------------------------------- (a)
def run_transparent(case):
    viol = []
    obs = schedx.run_filter('fb', case)
    if obs['err'] is not None:
        viol.append(dict(sig='c12-filter-did-not-run', msg='feedback filter failed on an empty-span schedule: %s'
                         % (obs['err'][1],)))
        return viol, {}
    tr = obs['res']['trajectory']
    ref = obs['traj']
    same_index = len(tr.index) == len(ref.index) and (np.asarray(tr.index) == np.asarray(ref.index)).all()
    if not same_index or list(tr.columns) != list(ref.columns) or \
            np.ascontiguousarray(tr.values).tobytes() != np.ascontiguousarray(ref.values).tobytes():
        d = np.abs(tr.values - ref.values).max() if tr.shape == ref.shape else float('nan')
        viol.append(dict(sig='c12-not-transparent:%s' % case['models'],
                         msg='no measurement inside the span, but the feedback trajectory is not bit-identical '
                             'to plain integration (max |diff| %.3e; models=%s step=%s pattern=%s wa=%s samples=%s)'
                             % (d, case['models'], case['step'], case['pattern'], case['wa'], case['samples'])))
    used = [x for x in obs['log'] if x[2]]
    if used:
        viol.append(dict(sig='c12-out-of-span-sample-used', msg='a sample outside [start,end) was used: %s' % used))
    for name in ('gyro', 'accel'):
        g = obs['res'][name]
        if g.shape[1] and (g.values != 0).any():
            viol.append(dict(sig='c12-estimates-nonzero-without-data',
                             msg='%s estimates are non-zero although no measurement was processed' % name))
    return viol, dict(filter_runs=1)


# ------------------------------------------------------------------------- (b)
_REF = {}


def reference(motion, wa):
    key = (motion, wa)
    if key in _REF:
        return _REF[key]
    from pyins import sim, strapdown
    dt = 0.05
    vz = (0.5, 1.0) if wa else (0.0, 0.0)
    spec = [dict(lla=[50.0, 60.0, 100.0], vm=[10.0, -5.0, vz[0]], va=[3.0, 3.0, vz[1]], period=7.0),
            dict(lla=[-33.0, 151.0, 3000.0], vm=[60.0, 40.0, vz[0]], va=[10.0, 6.0, vz[1]], period=9.0),
            dict(lla=[70.0, -170.0, 0.0], vm=[-20.0, 25.0, 0.0], va=[4.0, 6.0, vz[1]], period=6.0),
            # southbound weave: the heading crosses +-180 deg back and forth inside covariance steps
            dict(lla=[-20.0, 179.99, 50.0], vm=[-20.0, 0.5, vz[0]], va=[3.0, 6.0, vz[1]], period=4.0),
            # unaccelerated straight flight: linear interpolation between rows (feedforward) and prediction by a part
            # of the increment (feedback) are both exact, so fixes BETWEEN the IMU samples can be compared (mix PVc)
            dict(lla=[40.0, 30.0, 2000.0], vm=[35.0, -20.0, vz[0]], va=[0.0, 0.0, 0.0], period=7.0)][motion]
    traj_true, imu_true = sim.generate_sine_velocity_motion(dt, 20.0, spec['lla'], spec['vm'], spec['va'],
                                                            velocity_change_period=spec['period'])
    inc0 = strapdown.compute_increments_from_imu(imu_true, 'rate')
    ref = strapdown.Integrator(traj_true.iloc[0], wa).integrate(inc0)
    _REF[key] = (imu_true, ref)
    return _REF[key]


def run_pair(case, s):
    from pyins import strapdown, filters, measurements, inertial_sensor as isn, transform, sim, util
    wa = case['wa']
    imu_true, ref = reference(case['motion'], wa)
    rng = np.random.RandomState(5)
    gb = np.array([1e-3, -2e-3, 1e-3]) * s
    ab = np.array([0.05, -0.05, 0.1]) * s
    sm = case['cls'] == 'sm'
    T = np.eye(3) + (s * 1e-2 * rng.randn(3, 3) if sm else 0.0)
    imu = isn.apply_imu_parameters(imu_true, 'rate', isn.Parameters(bias=gb, transform=T), isn.Parameters(bias=ab))
    inc = strapdown.compute_increments_from_imu(imu, 'rate')
    e0 = pd.Series([5, -3, 2 if wa else 0, 0.2, -0.1, 0.1 if wa else 0, 0.1, -0.2, 0.5],
                   index=util.TRAJECTORY_ERROR_COLS, dtype=float) * s
    init = sim.perturb_pva(ref.iloc[0], e0)
    if case['cls'] == 'subset':
        gm = isn.EstimationModel(bias_sd=[0, 2e-3 * s, 2e-3 * s], noise=1e-5 * s)
        am = isn.EstimationModel(bias_sd=[0.1 * s, 0, 0.1 * s], noise=1e-3 * s)
        gb = gb * np.array([0, 1, 1])
        ab = ab * np.array([1, 0, 1])
        imu = isn.apply_imu_parameters(imu_true, 'rate', isn.Parameters(bias=gb, transform=T), isn.Parameters(bias=ab))
        inc = strapdown.compute_increments_from_imu(imu, 'rate')
    elif case['cls'] == 'sm2':
        # scale factors and misalignments of the ACCELEROMETERS too (all nine terms): the below-diagonal ones couple the
        # horizontal acceleration of the manoeuvres into the other axes and are observable within the 20 s
        Ta = np.eye(3) + s * 2e-2 * np.random.RandomState(11).randn(3, 3)
        imu = isn.apply_imu_parameters(imu_true, 'rate', isn.Parameters(bias=gb), isn.Parameters(bias=ab, transform=Ta))
        inc = strapdown.compute_increments_from_imu(imu, 'rate')
        gm = isn.EstimationModel(bias_sd=2e-3 * s, noise=1e-5 * s)
        am = isn.EstimationModel(bias_sd=0.1 * s, noise=1e-3 * s, scale_misal_sd=2e-2 * s)
    else:
        gm = isn.EstimationModel(bias_sd=2e-3 * s, noise=1e-5 * s, scale_misal_sd=(1e-2 * s if sm else None))
        am = isn.EstimationModel(bias_sd=0.1 * s, noise=1e-3 * s)
    nz = rng.randn(len(ref), 3)
    meas = []
    clustered = 'c' in case['mix']
    if clustered:
        base_t = np.asarray(ref.index, dtype=float)[20::40]
        base_t = base_t[base_t + 0.05 <= float(ref.index[-1])]
    if 'P' in case['mix']:
        pm = ref.iloc[0::40] if '0' in case['mix'] else ref.iloc[20::40]
        if clustered:
            pm = transform.resample_state(ref, base_t + 0.3 * 0.05)
        arm = np.array([2.0, -1.0, 0.5]) if case['motion'] == 1 else None      # antenna lever arm on one motion
        src = transform.translate_trajectory(pm, arm) if arm is not None else pm
        meas.append(measurements.Position(pd.DataFrame(
            transform.perturb_lla(src[['lat', 'lon', 'alt']].values, s * 1.0 * nz[20::40][:len(pm)] if len(nz[20::40]) >= len(pm)
                                  else s * 1.0 * nz[:len(pm)]), index=pm.index,
            columns=['lat', 'lon', 'alt']), 1.0 * s, imu_to_antenna_b=arm))
    if 'V' in case['mix']:
        vm = ref.iloc[20::40] if 's' in case['mix'] else ref.iloc[30::40]
        if clustered:
            vm = transform.resample_state(ref, base_t + 0.7 * 0.05)
        meas.append(measurements.NedVelocity(pd.DataFrame(
            vm[['VN', 'VE', 'VD']].values + s * 0.1 * nz[30::40][:len(vm)], index=vm.index, columns=['VN', 'VE', 'VD']), 0.1 * s))
    if 'B' in case['mix']:
        bm = ref.iloc[10::40]
        bd = sim.generate_body_velocity_measurements(bm, 0.0, rng=0) + s * 0.1 * nz[10::40]
        meas.append(measurements.BodyVelocity(bd, 0.1 * s))
    sds = (5 * s, 0.2 * s, 0.2 * s, 0.5 * s)
    fb = filters.run_feedback_filter(init, *sds, inc, gm, am, measurements=meas, time_step=case['step'],
                                     with_altitude=wa)
    tc = strapdown.Integrator(init, wa).integrate(inc)
    ff = filters.run_feedforward_filter(tc, tc, *sds, gm, am, measurements=meas, increments=inc,
                                        time_step=case['step'], with_altitude=wa)
    common = ff.trajectory.index.intersection(fb.trajectory_sd.index)
    d = transform.compute_state_difference(fb.trajectory.loc[common], ff.trajectory.loc[common])
    sd = fb.trajectory_sd.loc[common]
    if not wa:
        d = d.drop(columns=['down', 'VD'])
        sd = sd.drop(columns=['down', 'VD'])
    n_traj = (d / sd).values
    sdr = (ff.trajectory_sd.loc[common] / fb.trajectory_sd.loc[common] - 1)
    if not wa:
        sdr = sdr.drop(columns=['down', 'VD'])
    n_g = ((fb.gyro.loc[common] - ff.gyro.loc[common]) / fb.gyro_sd.loc[common]).values
    n_a = ((fb.accel.loc[common] - ff.accel.loc[common]) / fb.accel_sd.loc[common]).values
    gsd = (ff.gyro_sd.loc[common] / fb.gyro_sd.loc[common] - 1).values
    return dict(n=np.hstack([n_traj, n_g, n_a]), sd=np.hstack([sdr.values, gsd]), rows=len(common))


def run_equivalence(case):
    viol = []
    r = {s: run_pair(case, s) for s in (1.0, 0.1, 0.01)}
    if min(x['rows'] for x in r.values()) < 5:
        viol.append(dict(sig='c12-equivalence-void', msg='fewer than 5 common rows between the two filters'))
        return viol, {}
    n1, n01, n001 = r[1.0]['n'], r[0.1]['n'], r[0.01]['n']
    if not (np.isfinite(n1).all() and np.isfinite(n01).all() and np.isfinite(n001).all()):
        viol.append(dict(sig='c12-equivalence-nonfinite', msg='non-finite normalised difference'))
        return viol, {}
    a = np.abs(n1 - n001).max()
    b = np.abs(n01 - n001).max()
    floor = np.abs(n001).max()
    floor_rms = float(np.sqrt(np.mean(n001 ** 2)))
    stats = dict(max_floor=float(floor), max_floor_rms=floor_rms, max_tight_floor=float(max(floor / FLOOR, floor_rms / FLOOR_RMS)),
                 min_shrink_ratio=float(a / max(b, 1e-300)))
    tag = '%s:%s' % (case['cls'], '3d' if case['wa'] else '2d')
    if floor > FLOOR or floor_rms > FLOOR_RMS:
        viol.append(dict(sig='c12-first-order-disagreement:' + tag,
                         msg='feedback and feedforward filters disagree by %.3f sd (rms %.3f) at error scale 0.01 (a first-'
                             'order disagreement does not vanish with the error scale); at scales 1, 0.1: %.3f, %.3f'
                             % (floor, floor_rms, np.abs(n1).max(), np.abs(n01).max())))
    elif a < 5 * b and a > 0.05:
        viol.append(dict(sig='c12-not-proportional:' + tag,
                         msg='the scale-dependent disagreement does not shrink in proportion to the error scale: '
                             '|n(1)-n(.01)|=%.3e, |n(.1)-n(.01)|=%.3e' % (a, b)))
    # standard deviations: the two filters linearise about states that differ by O(s), so sd_FF/sd_FB - 1
    # must fall in proportion to s (factor 10 per decade, margin 2) and be small at s = 0.01
    dev = [float(np.abs(r[s]['sd']).max()) for s in (1.0, 0.1, 0.01)]
    stats['max_sd_dev_s1'] = dev[0]
    stats['max_sd_dev_s001'] = dev[2]
    # proportionality is asymptotic: at s = 1 higher-order terms are still visible (0.19 -> 0.038 is a factor 5.0,
    # 0.038 -> 0.0040 a factor 9.5), so the small decade must show the factor (>= 5), the large one only a clear fall
    stats['max_tight_sd_ratio'] = max(dev[1] / (0.5 * dev[0] + 1e-6), dev[2] / (0.2 * dev[1] + 1e-6), dev[2] / 0.01)
    if dev[1] > 0.5 * dev[0] + 1e-6 or dev[2] > 0.2 * dev[1] + 1e-6 or dev[2] > 0.01:
        viol.append(dict(sig='c12-sd-ratio:' + tag,
                         msg='sd_FF/sd_FB - 1 does not fall in proportion to the error scale: %s at scales 1, 0.1, '
                             '0.01' % ['%.3e' % x for x in dev]))
    return viol, stats


# ------------------------------------------------------------------------- (c)
def tables_bytes(res):
    out = []
    for name in ('trajectory', 'trajectory_sd', 'gyro', 'gyro_sd', 'accel', 'accel_sd'):
        df = res[name]
        out.append((name, np.ascontiguousarray(df.values, dtype=float).tobytes(),
                    np.asarray(df.index, dtype=float).tobytes(), tuple(df.columns)))
    for k in sorted(res['innovations']):
        df = res['innovations'][k]
        out.append(('inn_' + k, np.ascontiguousarray(df.values, dtype=float).tobytes(),
                    np.asarray(df.index, dtype=float).tobytes(), tuple(df.columns)))
    return out


def run_rerun(case):
    from pyins import strapdown, filters, measurements, inertial_sensor as isn, sim
    viol = []
    traj_true, imu_true = sim.generate_sine_velocity_motion(0.1, 6.0, [50, 60, 100], [10, -5, 0.5], [3, 3, 1],
                                                            velocity_change_period=7)
    rng = np.random.RandomState(3)
    imu = isn.apply_imu_parameters(imu_true, 'rate', isn.Parameters(bias=[1e-3, -2e-3, 1e-3]),
                                   isn.Parameters(bias=[0.05, -0.05, 0.1]))
    inc = strapdown.compute_increments_from_imu(imu, 'rate')
    init = sim.perturb_pva(traj_true.iloc[0], sim.generate_pva_error(5, 0.2, 0.1, 0.5, rng))
    tc = strapdown.Integrator(init).integrate(inc)
    pos = measurements.Position(sim.generate_position_measurements(traj_true.iloc[5::10], 1.0, rng), 1.0)
    vel = measurements.NedVelocity(sim.generate_ned_velocity_measurements(traj_true.iloc[8::15], 0.1, rng), 0.1)

    def models():
        return (isn.EstimationModel(bias_sd=2e-3, noise=1e-5, scale_misal_sd=1e-2, bias_walk=1e-6),
                isn.EstimationModel(bias_sd=0.1, noise=1e-3))

    def call(kind, gm, am, ms=None):
        ms = [pos, vel] if ms is None else ms
        wa = not kind.endswith('2')
        if kind.startswith('FB'):
            return filters.run_feedback_filter(init, 5, 0.2, 0.2, 0.5, inc, gm, am, measurements=ms,
                                               time_step=0.5, with_altitude=wa)
        return filters.run_feedforward_filter(tc, tc, 5, 0.2, 0.2, 0.5, gm, am, measurements=ms,
                                              increments=inc, time_step=0.5, with_altitude=wa)

    def fresh_meas():
        return [measurements.Position(pos.data.copy(), 1.0), measurements.NedVelocity(vel.data.copy(), 0.1)]

    fresh = {k: tables_bytes(call(k, *models(), ms=fresh_meas())) for k in set(case['seq'])}
    gm, am = models()
    for i, kind in enumerate(case['seq']):
        if case['poke'] and i > 0:
            gm.update_estimates(np.full(gm.n_states, 1e-3))
            am.update_estimates(np.full(am.n_states, -2e-2))
        got = tables_bytes(call(kind, gm, am))
        if got != fresh[kind]:
            bad = [a[0] for a, b in zip(got, fresh[kind]) if a != b]
            viol.append(dict(sig='c12-rerun-differs:%s' % kind,
                             msg='run %d (%s) of the sequence %s with shared model objects%s differs from the same '
                                 'call with fresh models in tables %s'
                                 % (i + 1, kind, case['seq'], ' (estimates poked in between)' if case['poke'] else '', bad)))
            break
    return viol, dict(filter_runs=len(case['seq']) + len(fresh))


def run_case(case):
    part = case['part']
    viol, stats = {'transparent': run_transparent, 'equivalence': run_equivalence, 'rerun': run_rerun}[part](case)
    first = {}
    for x in viol:
        first.setdefault(x['sig'], x)
    nontrivial = bool(case.get('samples')) or part != 'transparent'
    return dict(viol=list(first.values()), key=repr(sorted((k, str(v_)) for k, v_ in case.items())),
                nontrivial=nontrivial, stats=stats)


def finalize(cases, results, tier):
    return dict(tier_bound=('quick: (a) all subsets of <= 2 of the 9 out-of-span samples; (b) every 4th scenario of the 240 '
                            '(index + seed) plus two fixed ones (shared-stamp mix, scale/misalignment with three sensors); '
                            '(c) all 14 sequences + 2 poked' if tier == 'quick' else
                            'thorough: (a) all 512 subsets; (b) all 240 scenarios; (c) all 14 sequences + 2 poked'),
                scenarios_b=sum(1 for c in cases if c['part'] == 'equivalence'),
                schedules_a=sum(1 for c in cases if c['part'] == 'transparent'))

"""C06 - measurement models: residual sign/units right and H is the Jacobian of z.

Engine E3: full product pva lattice x lever arm x body rates x altitude mode x 3 classes.
For an INS state p (the lattice point) and an error vector x the *true* state is
correct(p, x) under the library's correction convention (written out independently in
mc/truth/errstate.py, bound to correct_pva by C05).  The measured value is derived from
the true state with an independent geometry; z(x) is what the real compute_matrices
returns for it.  Oracles: z(0) = -offset; H = dz/dx (Richardson central differences);
R = sd^2 I of matching dimension; None at absent times; simulators.
"""
import itertools

import numpy as np
import pandas as pd

from mc.truth import errstate, rot

ID = 'C06'
LEVEL = 'exploration'
CASE_TIMEOUT = 600
BATCH = 4
EPS = np.finfo(float).eps
D2R = np.pi / 180
COLS = ['lat', 'lon', 'alt', 'VN', 'VE', 'VD', 'roll', 'pitch', 'heading']
RATE_COLS = ['rate_x', 'rate_y', 'rate_z']
RULE = ('full product lat x lon x pitch x roll x heading x velocity (one case per pva); inside: lever arm '
        '{None,0,(2,-1,.5),(-3,.5,1),(1.5,0,-.8),(0,0,-2)} x body rates {absent,(0.3,-0.5,0.8)} x with_altitude x {Position, '
        'NedVelocity, BodyVelocity} x measured-value offsets. Non-trivial = non-level attitude or non-zero '
        'velocity; distinct = distinct (pva, lever, rates, mode, class).')
ASSUMPTIONS = ['true state = errstate.correct(p, x) (bound to correct_pva by C05)',
               'Jacobian by Richardson-extrapolated central differences (position 10/5 m, velocity '
               '2e-2/1e-2 m/s, attitude 2e-4/1e-4 rad, 4e-3/2e-3 rad for Position), tolerance 1e-6 of the row scale + second-order term']
LEVERS = {'none': None, 'zero': (0.0, 0.0, 0.0), 'a': (2.0, -1.0, 0.5), 'b': (-3.0, 0.5, 1.0),
          # structured arms: a zero component / a single axis (anything that tests 'all' for 'any')
          'c': (1.5, 0.0, -0.8), 'd': (0.0, 0.0, -2.0)}
RATES = {'absent': None, 'present': (0.3, -0.5, 0.8)}
OFFSETS = [(0.0, 0.0, 0.0), (10.0, -10.0, 10.0)]
STEPS = np.array([10.0, 10.0, 10.0, 2e-2, 2e-2, 2e-2, 2e-4, 2e-4, 2e-4])


def gen_cases(tier, seed):
    ph = seed % 8
    if tier == 'quick':
        lats, lons = (-85.0, 0.0, 60.0), (-170.0, 10.0 + ph)
        pitches, rolls = (-85.0, 40.0 + ph), (-170.0, 100.0 + ph)
        heads, vels = (-135.0, 179.0 - ph), (1, 2)
    else:
        lats, lons = (-85.0, -30.0, 0.0, 60.0, 85.0), (-170.0, 10.0 + ph)
        pitches, rolls = (-85.0, -40.0, 0.0, 40.0 + ph, 85.0), (-170.0, 0.0, 100.0 + ph)
        heads, vels = (-135.0, 0.0, 179.0 - ph), (0, 1, 2)
    # fractional values (an integer-valued lattice would hide a truncation to an integer dtype); two flight levels
    V = [(0.0, 0.0, 0.0), (30.25, -40.6, 5.3), (-200.7, 200.4, -20.9)]
    return [dict(pva=[la, lo, (800.0, 9300.5)[k % 2], *V[v], r, p, h]) for k, (la, lo, p, r, h, v) in
            enumerate(itertools.product(lats, lons, pitches, rolls, heads, vels))]


def true_measured(kind, p_true, lever, rates):
    """Measured quantity derived from the true state with an independent geometry."""
    c = errstate.c_of(p_true)
    if kind == 'Position':
        l = np.zeros(3) if lever is None else np.asarray(lever)
        return errstate.step_lla(p_true[:3], c @ l)
    if kind == 'NedVelocity':
        v = p_true[3:6].copy()
        if lever is not None and rates is not None:
            v = v + c @ np.cross(rates, lever)
        return v
    return c.T @ p_true[3:6]


def true_state(p, x, wa):
    """correct(p, x) under the library's convention, x in the model's own (9 or 7) states."""
    if wa:
        return errstate.correct(p, x)
    x9 = np.zeros(9)
    x9[[0, 1, 3, 4, 6, 7, 8]] = x
    x9[5] = p[4] * x9[6] - p[3] * x9[7]
    t = errstate.correct(p, x9)
    t[2], t[5] = p[2], p[5]
    return t


class ScriptedRNG(np.random.RandomState):
    """RandomState whose randn returns a prepared array (turns the simulators' noise into a
    known injected error)."""

    def __init__(self, values):
        super().__init__(0)
        self.values = np.asarray(values, dtype=float)

    def randn(self, *shape):
        assert tuple(shape) == self.values.shape, (shape, self.values.shape)
        return self.values.copy()


def run_case(case):
    from pyins import measurements, error_model, sim
    p = np.array(case['pva'], dtype=float)
    viol = []
    stats = {}

    def v(sig, msg):
        viol.append(dict(sig=sig, msg=msg))

    def tight(name, val):
        stats['max_tight_' + name] = max(stats.get('max_tight_' + name, 0.0), float(val))

    tq = 17.5
    n_eval = 0
    cp = np.cos(p[7] * D2R)
    # ONE error-model object per altitude mode serves every measurement of the case (as in a filter run with
    # several position / velocity sources); lever arms come first, the arm-less sources after them
    ems = {True: error_model.InsErrorModel(True), False: error_model.InsErrorModel(False)}
    lever_order = [k for k in LEVERS if LEVERS[k] is not None] + [k for k in LEVERS if LEVERS[k] is None]
    for lever_k, rates_k, wa, kind in itertools.product(lever_order, RATES, (True, False),
                                                        ('Position', 'NedVelocity', 'BodyVelocity')):
        lever, rates = LEVERS[lever_k], RATES[rates_k]
        if kind == 'BodyVelocity' and lever_k != 'none':
            continue
        em = ems[wa]
        n = em.n_states
        idx = list(range(9)) if wa else [0, 1, 3, 4, 6, 7, 8]
        pva = pd.Series(p, index=COLS, name=tq)
        if rates is not None:
            pva = pd.concat([pva, pd.Series(rates, index=RATE_COLS)])
            pva.name = tq
        sd = {'Position': 2.0, 'NedVelocity': 0.2, 'BodyVelocity': 0.3}[kind]

        def make(meas_value, times=(tq,), layout='canonical'):
            cols = {'Position': ['lat', 'lon', 'alt'], 'NedVelocity': ['VN', 'VE', 'VD'],
                    'BodyVelocity': ['VX', 'VY', 'VZ']}[kind]
            df = pd.DataFrame([meas_value] * len(times), index=list(times), columns=cols)
            if layout == 'shuffled':
                # a log with the documented columns in another order and a foreign column between them
                df = df[[cols[2], cols[0], cols[1]]]
                df.insert(1, 'quality', 7.0)
            if kind == 'Position':
                return measurements.Position(df, sd, imu_to_antenna_b=lever)
            if kind == 'NedVelocity':
                return measurements.NedVelocity(df, sd, imu_to_antenna_b=lever)
            return measurements.BodyVelocity(df, sd)

        def z_of(x, offset=(0.0, 0.0, 0.0), layout='canonical'):
            pt = true_state(p, x, wa)
            mv = true_measured(kind, pt, lever, rates)
            if kind == 'Position':
                mv = errstate.step_lla(mv, np.asarray(offset))
            else:
                mv = mv + np.asarray(offset) * 0.1
            ret = make(mv, layout=layout).compute_matrices(tq, pva, em)
            return ret

        ret0 = z_of(np.zeros(n))
        n_eval += 1
        if ret0 is None:
            v('c06-none-at-present-time', '%s returned None at a time present in its data' % kind)
            continue
        z0, H, R = [np.asarray(a, dtype=float) for a in ret0]
        m_exp = 3 if (wa or kind == 'BodyVelocity') else 2
        tagc = '%s:%s' % (kind, '3d' if wa else '2d')
        if z0.shape != (m_exp,) or H.shape != (m_exp, n) or R.shape != (m_exp, m_exp):
            v('c06-shapes:' + tagc, '%s shapes z%s H%s R%s, expected %d rows, %d states (lever %s)'
              % (kind, z0.shape, H.shape, R.shape, m_exp, n, lever_k))
            continue
        if (R != sd ** 2 * np.eye(m_exp)).any():
            v('c06-R:' + kind, '%s R is not sd^2 I' % kind)
        # the data table is identified by its column NAMES: another column order / a foreign column change nothing
        ret_s = z_of(np.zeros(n), (10.0, -4.0, 3.0), layout='shuffled')
        ret_c = z_of(np.zeros(n), (10.0, -4.0, 3.0))
        if ret_s is None or any(np.shape(a_) != np.shape(b_) or (np.asarray(a_, float) != np.asarray(b_, float)).any()
                                for a_, b_ in zip(ret_s, ret_c)):
            v('c06-table-layout:' + tagc, '%s: a data table with the documented columns in another order (and a foreign column) '
              'gives z=%s, the canonical table z=%s' % (kind, None if ret_s is None else np.asarray(ret_s[0]).tolist(),
                                                         np.asarray(ret_c[0]).tolist()))
        # (i) zero residual at the true state, -offset with an offset
        # second-order geometry of the lever arm: |l|^2 (1 + tan lat) / R
        lnorm = 0.0 if lever is None else float(np.linalg.norm(lever))
        geo2 = (1 + abs(np.tan(p[0] * D2R))) / 6.3e6
        scale_z = {'Position': 1e-7 + 2 * lnorm ** 2 * geo2, 'NedVelocity': 1e-10,
                   'BodyVelocity': 1e-10}[kind]
        tight('z0_' + kind, np.abs(z0).max() / scale_z)
        if np.abs(z0).max() > scale_z:
            v('c06-z-nonzero-at-truth:' + kind, '%s residual %s at the true state (lever %s, rates %s, '
              'with_altitude=%s)' % (kind, z0.tolist(), lever_k, rates_k, wa))
        for off in OFFSETS[1:]:
            zo = np.asarray(z_of(np.zeros(n), off)[0], dtype=float)
            n_eval += 1
            exp = -np.asarray(off)[:m_exp] if kind == 'Position' else -0.1 * np.asarray(off)[:m_exp]
            tol = (1e-4 + 2 * 300.0 / 6.3e6 * (1 + abs(np.tan(p[0] * D2R)))) if kind == 'Position' else 1e-10
            if np.abs(zo - exp).max() > tol:
                v('c06-z-sign-units:' + kind, '%s: measured = predicted + %s gives residual %s, expected %s'
                  % (kind, off, zo.tolist(), exp.tolist()))
        # (iv) absent time / other row
        mo = make(true_measured(kind, p, lever, rates), times=(tq - 1.0, tq, tq + 2.0))
        for t_abs in (tq + 0.5, tq - 2.0 ** -20, tq + 2.0 ** -20, np.nextafter(tq, 0.0), np.nextafter(tq, 1e9),
                      tq - 1.0 - 2.0 ** -20):
            if mo.compute_matrices(t_abs, pva, em) is not None:
                v('c06-not-none-at-absent-time', '%s returned data at t=%r, which is absent from its table %s'
                  % (kind, t_abs, [tq - 1.0, tq, tq + 2.0]))
                break
        # large time stamps (seconds of week): a microsecond beside a sample is still absent
        big = 345600.25
        mob = make(true_measured(kind, p, lever, rates), times=(big - 1.0, big, big + 2.0))
        if mob.compute_matrices(big, pva, em) is None:
            v('c06-none-at-present-time', '%s returned None at a present (large) time' % kind)
        for t_abs in (big - 2.0 ** -20, big + 2.0 ** -20, big - 0.01, np.nextafter(big, 0.0)):
            if mob.compute_matrices(t_abs, pva, em) is not None:
                v('c06-not-none-at-absent-time', '%s returned data at t=%r, absent from its table %s'
                  % (kind, t_abs, [big - 1.0, big, big + 2.0]))
                break
        r_other = mo.compute_matrices(tq + 2.0, pva, em)
        if r_other is None or np.abs(np.asarray(r_other[0], dtype=float) - z0).max() > 1e-9:
            v('c06-other-row', '%s: querying another present row gives a different answer' % kind)
        # one object evaluated under BOTH altitude modes, in both orders, answers like a fresh object each time
        for order_ in ((True, False, True), (False, True, False)):
            both = make(true_measured(kind, p, lever, rates))
            for wa2 in order_:
                got = both.compute_matrices(tq, pva, ems[wa2])
                ref = make(true_measured(kind, p, lever, rates)).compute_matrices(tq, pva, ems[wa2])
                if got is None or any(np.shape(a_) != np.shape(b_) or np.abs(np.asarray(a_, float) - np.asarray(b_, float)).max() > 0
                                      for a_, b_ in zip(got, ref)):
                    v('c06-object-remembers-altitude-mode', '%s: an object evaluated with error models of both altitude '
                      'modes (order %s) answers differently from a fresh object in mode with_altitude=%s (shapes %s vs %s)'
                      % (kind, order_, wa2, [np.shape(a_) for a_ in (got or ())], [np.shape(b_) for b_ in ref]))
                    break
        # one object queried repeatedly in arbitrary time order answers like a fresh object each time
        seq_obj = make(true_measured(kind, p, lever, rates), times=(tq - 1.0, tq, tq + 2.0))
        for tt in (tq + 2.0, tq, tq - 1.0, tq + 0.5, tq, tq + 2.0):
            got = seq_obj.compute_matrices(tt, pva, em)
            ref = make(true_measured(kind, p, lever, rates), times=(tq - 1.0, tq, tq + 2.0)).compute_matrices(tt, pva, em)
            if (got is None) != (ref is None) or (got is not None and any(
                    np.abs(np.asarray(a_, float) - np.asarray(b_, float)).max() > 0 for a_, b_ in zip(got, ref))):
                v('c06-object-remembers-queries', '%s: an object queried at %s in arbitrary order answers differently '
                  'from a fresh object at t=%r' % (kind, 'tq+2, tq, tq-1, tq+.5, tq, tq+2', tt))
                break
        # (ii) H = dz/dx
        J = np.zeros((m_exp, n))
        for k in range(n):
            h1 = STEPS[idx[k]]
            if kind == 'Position' and idx[k] >= 6:
                h1 = 4e-3       # longitude round-off (see tolH below) needs a larger attitude step
            h2 = h1 / 2
            ek = np.zeros(n)
            ek[k] = 1.0
            d1 = (np.asarray(z_of(h1 * ek)[0], float) - np.asarray(z_of(-h1 * ek)[0], float)) / (2 * h1)
            d2 = (np.asarray(z_of(h2 * ek)[0], float) - np.asarray(z_of(-h2 * ek)[0], float)) / (2 * h2)
            J[:, k] = (4 * d2 - d1) / 3
            n_eval += 4
        row_scale = np.abs(H).max(axis=1, keepdims=True) + np.abs(J).max(axis=1, keepdims=True) + 1e-300
        # second-order/neglected terms: position rows carry |lever|/R and 1/R couplings,
        # attitude columns carry the 1/cos(pitch) sensitivity of the Euler angles used to build C
        tolH = 1e-6 * row_scale + 1e-7 / cp
        if kind == 'Position':
            # relative second-order geometry of the antenna offset and of the 10 m steps
            tolH = tolH + row_scale * 2 * (lnorm + 10.0) * geo2
            # round-off floor: z is formed from latitudes/longitudes stored in degrees (one ulp of 180 deg
            # is 3e-9 m); Richardson central differences with steps (4e-3, 2e-3) rad amplify it by 5/(3*2h)
            tol_att = 4 * np.spacing(180.0) * 1.1e5 / (2 * 2e-3) * (5.0 / 3.0)
            tolH = tolH + np.array([[tol_att if idx[k_] >= 6 else 0.0 for k_ in range(n)]])
        e = np.abs(H - J)
        tight('H_' + kind, (e / tolH).max())
        if (e > tolH).any():
            r_, c_ = np.unravel_index(np.argmax(e / tolH), e.shape)
            lev_cls = 'lever' if (lever is not None and any(lever)) else 'nolever'
            rate_cls = 'rates' if rates is not None else 'norates'
            v('c06-H-not-jacobian:%s:%s:%s' % (tagc, lev_cls, rate_cls),
              '%s: H[%d,%d]=%.6g but dz/dx=%.6g (lever %s, rates %s, with_altitude=%s); max |H-J|=%.3g'
              % (kind, r_, c_, H[r_, c_], J[r_, c_], lever_k, rates_k, wa, e.max()))
    # (v) simulators
    traj = pd.DataFrame([p, p], index=[1.0, 2.0], columns=COLS)
    em3 = error_model.InsErrorModel(True)
    einj = np.array([[3.0, -4.0, 2.0], [-1.0, 2.0, 5.0]])
    for kind, gen, sd, unit in (('Position', sim.generate_position_measurements, 2.0, 1.0),
                                ('NedVelocity', sim.generate_ned_velocity_measurements, 0.5, 1.0),
                                ('BodyVelocity', sim.generate_body_velocity_measurements, 0.5, 1.0)):
        cls = getattr(measurements, kind)
        data0 = gen(traj, 0.0, rng=1)
        z = np.asarray(cls(data0, 1.0).compute_matrices(2.0, traj.loc[2.0], em3)[0], dtype=float)
        tol0 = 1e-6 if kind == 'Position' else 1e-10
        if list(data0.index) != [1.0, 2.0] or np.abs(z).max() > tol0:
            v('c06-sim-zero-noise:' + kind, 'noise-free simulated %s gives residual %s at the true state'
              % (kind, z.tolist()))
        data1 = gen(traj, sd, rng=ScriptedRNG(einj / sd))
        z = np.asarray(cls(data1, 1.0).compute_matrices(2.0, traj.loc[2.0], em3)[0], dtype=float)
        tol1 = (1e-4 + 2 * 30.0 / 6.3e6 * (1 + abs(np.tan(p[0] * D2R)))) if kind == 'Position' else 1e-9
        if np.abs(z + einj[1]).max() > tol1:
            v('c06-sim-injected-error:' + kind, 'simulated %s with injected error %s gives residual %s, '
              'expected %s' % (kind, einj[1].tolist(), z.tolist(), (-einj[1]).tolist()))
        n_eval += 2
    first = {}
    for x in viol:
        first.setdefault(x['sig'], x)
    stats['evaluations'] = n_eval
    return dict(viol=list(first.values()), key=repr(case['pva']),
                nontrivial=bool(np.abs(p[3:8]).max() > 0), stats=stats)

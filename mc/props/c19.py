"""C19 - public functions are pure, deterministic and keep the documented schema.

Engine E1 over call programs built from a catalogue of the public callables of the ten
modules.  One case = one catalogue entry g, executed in a PRISTINE process:
  1. g alone, in every argument form: deep bitwise snapshots of every argument before/after
     (purity), documented schema of the result, agreement between argument forms;
  2. g twice: bit-identical results;
  3. for EVERY entry f of the catalogue: f, then g again - g's result must equal its
     first-call-in-a-fresh-process result (all ordered pairs (f, g), inside an accumulating
     history, so longer histories are covered as well).
"""
import hashlib

import numpy as np
import pandas as pd

ID = 'C19'
LEVEL = 'model_checking'
CASE_TIMEOUT = 1500
BATCH = 1
FRESH_WORKER_PER_BATCH = True
EPS = np.finfo(float).eps
TRAJ = ['lat', 'lon', 'alt', 'VN', 'VE', 'VD', 'roll', 'pitch', 'heading']
TERR = ['north', 'east', 'down', 'VN', 'VE', 'VD', 'roll', 'pitch', 'heading']
IMUC = ['gyro_x', 'gyro_y', 'gyro_z', 'accel_x', 'accel_y', 'accel_z']
INCC = ['dt', 'theta_x', 'theta_y', 'theta_z', 'dv_x', 'dv_y', 'dv_z']
RULE = ('catalogue of public callables x argument forms; one case per entry g in a pristine process: g in every '
        'form (argument snapshots, schema, form agreement), g twice, and g after every catalogue entry f (all '
        'ordered pairs). states = distinct (entry, history length) program points executed, transitions = calls. '
        'Non-trivial = every entry; distinct = distinct (f, g) pairs.')
ASSUMPTIONS = ['documented exceptions to purity: estimate state (bias, transform) of EstimationModel objects handed '
               'to a filter or updated explicitly; Parameters.rng / data_frame after apply; Integrator and '
               'Turntable are stateful objects by design (their argument tables are still checked)',
               'sim.Turntable.generate_imu raises inside the installed scipy (its test is not in the pinned '
               'baseline) and is recorded as not exercisable',
               'argument forms (list / ndarray / table, scalar / stacked) must give the same values to 16 ulp: memory layout and reduction order may change the last bits']


# ------------------------------------------------------------------------- fixtures (numpy only)
def traj_table(n=21, dt=0.5, t0=100.0):
    t = t0 + np.arange(n) * dt
    s = t - t0
    head = 150.0 + 7.0 * s + 3.0 * np.sin(s)
    return pd.DataFrame({
        'lat': -33.0 + 1e-4 * s + 1e-5 * np.sin(s), 'lon': 151.0 + 2e-5 * s * s, 'alt': 100.0 + 0.3 * s,
        'VN': 10 * np.sin(0.5 * s) + 11.0, 'VE': -5 + 0.7 * s, 'VD': -0.3 + 0.0 * s,
        'roll': 5 * np.sin(0.9 * s), 'pitch': 3.0 * np.cos(0.4 * s),
        'heading': (head + 180.0) % 360.0 - 180.0}, index=pd.Index(t, name='time'))[TRAJ]


def imu_table(n=21, dt=0.1, t0=100.0):
    t = t0 + np.arange(n) * dt
    k = np.arange(n)
    return pd.DataFrame(np.column_stack([0.01 * np.cos(0.7 * k), -0.008 * np.sin(1.1 * k), 0.015 + 0.0004 * k,
                                         0.3 * np.sin(0.9 * k), -0.2 * np.cos(0.6 * k), -9.81 + 0.05 * np.sin(1.3 * k)]),
                        index=pd.Index(t, name='time'), columns=IMUC)


def inc_table(n=20, dt=0.1, t0=100.0):
    t = t0 + (1 + np.arange(n)) * dt
    k = np.arange(n)
    return pd.DataFrame(np.column_stack([np.full(n, dt), 0.001 * np.cos(0.7 * k), -0.0008 * np.sin(1.1 * k),
                                         0.0015 + 0.00004 * k, 0.03 * np.sin(0.9 * k), -0.02 * np.cos(0.6 * k),
                                         -0.981 + 0.005 * np.sin(1.3 * k)]), index=pd.Index(t, name='time'),
                        columns=INCC)


def pva(t0=100.0):
    return pd.Series([-33.5, 151.25, 120.0, 4.0, -3.0, 0.25, 2.0, -3.0, 130.0], index=TRAJ, name=t0)


def as_form(a, form):
    a = np.array(a, dtype=float)
    if form == 'list':
        return a.tolist()
    if form == 'int':
        assert (a == np.round(a)).all()
        return a.astype(int)       # the same (whole) numbers as an integer-typed array
    return a


# ------------------------------------------------------------------------- snapshots / digests
def snap(o, skip=(), depth=0):
    if depth > 6:
        return 'deep'
    if isinstance(o, np.ndarray):
        return ('nd', o.dtype.str, o.shape, o.tobytes() if o.dtype != object else repr(o.tolist()))
    if isinstance(o, pd.DataFrame):
        return ('df', tuple(map(str, o.columns)), tuple(map(str, o.dtypes)), o.to_numpy(dtype=float, na_value=np.nan).tobytes()
                if all(k.kind in 'fiub' for k in o.dtypes) else repr(o.values.tolist()),
                np.asarray(o.index, dtype=float).tobytes() if o.index.dtype.kind in 'fiu' else repr(list(o.index)),
                str(o.index.name))
    if isinstance(o, pd.Series):
        return ('sr', tuple(map(str, o.index)), np.asarray(o.values, dtype=float).tobytes(), repr(o.name))
    if isinstance(o, (list, tuple)):
        return (type(o).__name__,) + tuple(snap(x, skip, depth + 1) for x in o)
    if isinstance(o, dict):
        return ('dict',) + tuple((str(k), snap(v_, skip, depth + 1)) for k, v_ in sorted(o.items(), key=lambda kv: str(kv[0]))
                                 if k not in skip)
    if isinstance(o, np.random.RandomState):
        st = o.get_state()
        return ('rng', st[0], st[1].tobytes(), st[2], st[3], st[4])
    if isinstance(o, (int, float, str, bool, type(None), np.floating, np.integer)):
        return repr(o)
    if hasattr(o, 'as_quat'):
        return ('rot', np.asarray(o.as_quat()).tobytes())
    if hasattr(o, '__dict__'):
        return ('obj', type(o).__name__) + tuple((k, snap(v_, skip, depth + 1)) for k, v_ in sorted(vars(o).items())
                                                 if k not in skip)
    return repr(o)


def scribble(o, depth=0):
    """Overwrite, in place, every array / table a caller received as (part of) a result - what a caller is
    free to do with values handed to it.  Returns the number of containers written."""
    n = 0
    if depth > 4:
        return 0
    try:
        if isinstance(o, np.ndarray):
            if o.dtype.kind == 'f' and o.flags.writeable and o.size:
                o[...] = -2.5 * o + 3.25
                n = 1
        elif isinstance(o, pd.DataFrame):
            if o.size and all(k.kind == 'f' for k in o.dtypes):
                o.iloc[:, :] = -2.5 * o.values + 3.25
                n = 1
        elif isinstance(o, pd.Series):
            if o.size and o.dtype.kind == 'f':
                o.iloc[:] = -2.5 * o.values + 3.25
                n = 1
        elif isinstance(o, (list, tuple)):
            n = sum(scribble(x, depth + 1) for x in o)
        elif isinstance(o, dict):
            n = sum(scribble(x, depth + 1) for x in o.values())
    except Exception:  # noqa  (a read-only result cannot be overwritten: nothing to check then)
        pass
    return n


def digest(o):
    return hashlib.sha1(repr(snap(o)).encode()).hexdigest()


def flat_numbers(o):
    """All floats of a result, for the ulp comparison between scalar and stacked forms."""
    out = []
    if isinstance(o, (np.ndarray, pd.DataFrame, pd.Series)):
        out.append(np.asarray(o, dtype=float).ravel())
    elif isinstance(o, (list, tuple)):
        for x in o:
            out.append(flat_numbers(x))
    elif isinstance(o, dict):
        for k in sorted(o):
            out.append(flat_numbers(o[k]))
    elif isinstance(o, (float, int, np.floating, np.integer)):
        out.append(np.array([float(o)]))
    return np.concatenate(out) if out else np.zeros(0)


# ------------------------------------------------------------------------- catalogue
class Entry:
    def __init__(self, name, make, call, forms=('array',), skip=(), schema=None, form_cmp='bitwise',
                 stack_of=None):
        self.name, self.make, self.call, self.forms = name, make, call, forms
        self.skip, self.schema, self.form_cmp, self.stack_of = skip, schema, form_cmp, stack_of


def cols_are(cols, index_of=None):
    def chk(res, args):
        df = res[0] if isinstance(res, tuple) else res
        if list(df.columns) != cols:
            return 'columns %s, documented %s' % (list(df.columns), cols)
        if index_of is not None:
            ref = np.asarray(args[index_of].index if hasattr(args[index_of], 'index') else args[index_of], dtype=float)
            if len(df.index) != len(ref) or (np.asarray(df.index, dtype=float) != ref).any():
                return 'time index differs from the input\'s'
        return None
    return chk


def build_catalogue():
    from pyins import (earth, transform, util, kalman, strapdown, error_model, inertial_sensor as isn,
                       measurements, sim, filters)
    C = []
    LLA3 = [[-33.0, 151.0, 100.0], [60.0, -170.0, 9000.0], [0.0, 10.0, -50.0]]
    A = lambda x, f: as_form(x, f)  # noqa
    AF = ('array', 'list')
    # ---- earth
    C.append(Entry('earth.principal_radii', lambda f: dict(lat=A([-33.0, 60.0, 0.0], f), alt=A([100.0, 9000.0, -50.0], f)),
                   lambda a: earth.principal_radii(a['lat'], a['alt']), AF))
    C.append(Entry('earth.gravity', lambda f: dict(lat=A([-33.0, 60.0, 0.0], f), alt=A([100.0, 9000.0, -50.0], f)),
                   lambda a: earth.gravity(a['lat'], a['alt']), AF))
    C.append(Entry('earth.gravity_n', lambda f: dict(lat=A([-33.0, 60.0, 0.0], f), alt=A([100.0, 9000.0, -50.0], f)),
                   lambda a: earth.gravity_n(a['lat'], a['alt']), AF))
    C.append(Entry('earth.gravitation_ecef', lambda f: dict(lla=A(LLA3, f)), lambda a: earth.gravitation_ecef(a['lla']), AF))
    C.append(Entry('earth.curvature_matrix', lambda f: dict(lat=A([-33.0, 60.0, 0.0], f), alt=A([100.0, 9000.0, -50.0], f)),
                   lambda a: earth.curvature_matrix(a['lat'], a['alt']), AF))
    C.append(Entry('earth.rate_n', lambda f: dict(lat=A([-33.0, 60.0, 0.0], f)), lambda a: earth.rate_n(a['lat']), AF))
    # ---- transform
    C.append(Entry('transform.lla_to_ecef', lambda f: dict(lla=A(LLA3, f)), lambda a: transform.lla_to_ecef(a['lla']), AF))
    C.append(Entry('transform.ecef_to_lla', lambda f: dict(r=A([[-4.6e6, 2.5e6, -3.4e6], [1e6, -2e6, 6e6], [6.3e6, 1e5, 1e4]], f)),
                   lambda a: transform.ecef_to_lla(a['r'] if isinstance(a['r'], np.ndarray) else np.array(a['r'])), ('array',)))
    C.append(Entry('transform.lla_to_ned', lambda f: dict(lla=traj_table()[['lat', 'lon', 'alt']] if f == 'frame' else A(traj_table()[['lat', 'lon', 'alt']].values, f),
                                                          origin=A([-33.0, 151.0, 100.0], 'array')),
                   lambda a: transform.lla_to_ned(a['lla'], a['origin']), ('array', 'list', 'frame')))
    C.append(Entry('transform.perturb_lla', lambda f: dict(lla=A(LLA3, f), d=A([[10.0, -5.0, 2.0]] * 3, f)),
                   lambda a: transform.perturb_lla(a['lla'], a['d']), AF))
    C.append(Entry('transform.translate_trajectory', lambda f: dict(t=traj_table(), b=A([1.0, -2.0, 0.5], f)),
                   lambda a: transform.translate_trajectory(a['t'], a['b']), AF, schema=cols_are(TRAJ, 't')))
    C.append(Entry('transform.compute_lla_difference', lambda f: dict(a=A(LLA3, f), b=A(np.array(LLA3) + [1e-4, -1e-4, 3.0], f)),
                   lambda a: transform.compute_lla_difference(a['a'], a['b']), AF))
    C.append(Entry('transform.resample_state', lambda f: dict(s=traj_table(), t=A(100.0 + np.arange(0, 9.0, 0.37), f)),
                   lambda a: transform.resample_state(a['s'], a['t']), AF, schema=cols_are(TRAJ)))
    # requested times in arbitrary order (the function sorts them for its result; the caller's array / index stays as it was)
    C.append(Entry('transform.resample_state[unsorted times]',
                   lambda f: dict(s=traj_table(), t=A(100.0 + np.array([7.5, 0.37, 3.1, 8.9, 1.2, 5.55]), f)),
                   lambda a: transform.resample_state(a['s'], a['t']), AF, schema=cols_are(TRAJ)))
    C.append(Entry('transform.resample_state[times = another table\'s index]',
                   lambda f: dict(s=traj_table(), o=traj_table(11, 1.0).iloc[[4, 1, 7, 2]]),
                   lambda a: transform.resample_state(a['s'], a['o'].index), schema=cols_are(TRAJ)))
    C.append(Entry('transform.compute_state_difference', lambda f: dict(a=traj_table(), b=traj_table(11, 1.0) + 0.01),
                   lambda a: transform.compute_state_difference(a['a'], a['b']), schema=cols_are(TERR)))
    C.append(Entry('transform.compute_state_difference[swapped]', lambda f: dict(a=traj_table(11, 1.0) + 0.01, b=traj_table()),
                   lambda a: transform.compute_state_difference(a['a'], a['b']), schema=cols_are(TERR)))

    def rots():
        from scipy.spatial.transform import Rotation
        return Rotation.from_euler('xyz', traj_table(40, 0.1)[['roll', 'pitch', 'heading']].values, True)
    # smoothing times 0.46 / 0.5 / 0.54 give the same filter length (11 taps) but different cut-offs: parameters
    # that collide in a derived quantity must not share anything between calls
    for st_ in (0.5, 0.46, 0.54):
        C.append(Entry('transform.smooth_rotations[%g]' % st_, lambda f: dict(r=rots()),
                       lambda a, st_=st_: transform.smooth_rotations(a['r'], 0.1, st_)))
        C.append(Entry('transform.smooth_state[%g]' % st_, lambda f: dict(s=traj_table(60, 0.1)),
                       lambda a, st_=st_: transform.smooth_state(a['s'], st_), schema=cols_are(TRAJ)))
    C.append(Entry('transform.mat_en_from_ll', lambda f: dict(lat=A([-33.0, 60.0], f), lon=A([151.0, -170.0], f)),
                   lambda a: transform.mat_en_from_ll(a['lat'], a['lon']), AF))
    C.append(Entry('transform.mat_from_rph', lambda f: dict(r=traj_table()[['roll', 'pitch', 'heading']] if f == 'frame' else
                                                            A(traj_table()[['roll', 'pitch', 'heading']].values, f)),
                   lambda a: transform.mat_from_rph(a['r']), ('array', 'list', 'frame')))
    # single (1-D / scalar) inputs take their own code paths
    C.append(Entry('transform.mat_from_rph[single]', lambda f: dict(r=A([10.0, -20.0, 30.0], f)),
                   lambda a: transform.mat_from_rph(a['r']), AF))
    C.append(Entry('transform.lla_to_ecef[single]', lambda f: dict(l=A([-33.0, 151.0, 100.0], f)),
                   lambda a: (transform.lla_to_ecef(a['l']), transform.ecef_to_lla(np.array([-4.6e6, 2.5e6, -3.4e6]))), AF))
    C.append(Entry('transform.perturb_lla[single]', lambda f: dict(l=A([-33.0, 151.0, 100.0], f), d=A([10.0, -5.0, 2.0], f)),
                   lambda a: (transform.perturb_lla(a['l'], a['d']), transform.compute_lla_difference(a['l'], [-33.0001, 151.0, 90.0])), AF))
    C.append(Entry('earth[scalar]', lambda f: dict(), lambda a: (earth.principal_radii(-33.0, 100.0), earth.gravity(-33.0, 100.0),
                                                                  earth.gravity_n(-33.0, 100.0), earth.curvature_matrix(-33.0, 100.0),
                                                                  earth.rate_n(-33.0), transform.mat_en_from_ll(-33.0, 151.0),
                                                                  earth.gravitation_ecef([-33.0, 151.0, 100.0]))))
    C.append(Entry('util.skew_matrix[single]', lambda f: dict(v=A([1.0, -2.0, 0.5], f)), lambda a: util.skew_matrix(a['v']), AF))
    C.append(Entry('transform.mat_to_rph', lambda f: dict(m=A(np.array([[[0.0, -1, 0], [1, 0, 0], [0, 0, 1]], np.eye(3)]), f)),
                   lambda a: transform.mat_to_rph(a['m']), AF))
    # ---- util
    M3 = np.arange(27, dtype=float).reshape(3, 3, 3) / 7.0
    C.append(Entry('util.mm_prod', lambda f: dict(a=A(M3, f), b=A(M3[::-1] + 1.0, f)),
                   lambda a: (util.mm_prod(a['a'], a['b']), util.mm_prod(a['a'], a['b'], at=True, bt=True)), AF))
    C.append(Entry('util.mm_prod_symmetric', lambda f: dict(a=A(M3, f), b=A(M3[::-1] + 1.0, f)),
                   lambda a: util.mm_prod_symmetric(a['a'], a['b']), AF))
    C.append(Entry('util.mv_prod', lambda f: dict(a=A(M3, f), b=A(M3[0], f)),
                   lambda a: (util.mv_prod(a['a'], a['b']), util.mv_prod(a['a'], a['b'], at=True)), AF))
    C.append(Entry('util.skew_matrix', lambda f: dict(v=A(M3[0], f)), lambda a: util.skew_matrix(a['v']), AF))
    C.append(Entry('util.skew_matrix[integer-valued]', lambda f: dict(v=A([[1, -2, 3], [0, 5, -7]], f)),
                   lambda a: util.skew_matrix(a['v']), ('array', 'int', 'list')))
    C.append(Entry('util.mm_prod[integer-valued]', lambda f: dict(a=A([[1, 2], [3, 4]], f), b=A([[0, -1], [5, 2]], f)),
                   lambda a: (util.mm_prod(a['a'], a['b']), util.mv_prod(a['a'], a['b'][0])), ('array', 'int', 'list')))
    C.append(Entry('transform.mat_from_rph[integer-valued]', lambda f: dict(r=A([[10, -20, 30], [0, 45, 170]], f)),
                   lambda a: transform.mat_from_rph(a['r']), ('array', 'int', 'list')))
    C.append(Entry('transform.lla_to_ecef[integer-valued]', lambda f: dict(l=A([[-33, 151, 100], [60, -170, 9000]], f)),
                   lambda a: (transform.lla_to_ecef(a['l']), transform.perturb_lla(a['l'], [[10, -5, 2]] * 2)), ('array', 'int', 'list')))
    C.append(Entry('util.compute_rms', lambda f: dict(d=traj_table() if f == 'frame' else A(traj_table().values, f)),
                   lambda a: util.compute_rms(a['d']), ('array', 'list', 'frame')))
    C.append(Entry('util.to_180_range', lambda f: dict(a=pd.Series([190.0, -190.0, 180.0, 720.5]) if f == 'frame' else A([190.0, -190.0, 180.0, 720.5], f)),
                   lambda a: util.to_180_range(a['a']), ('array', 'list', 'frame')))
    # ---- kalman
    F4 = np.array([[0.0, 1.0, 0, 0], [0, -0.2, 0.5, 0], [0, 0, 0, 1.0], [-0.1, 0, 0, -0.3]])
    Q4 = np.diag([0.0, 0.1, 0.0, 0.3])
    C.append(Entry('kalman.compute_process_matrices', lambda f: dict(F=F4.copy(), Q=Q4.copy()),
                   lambda a: kalman.compute_process_matrices(a['F'], a['Q'], 0.7)))
    C.append(Entry('kalman.compute_process_matrices[integer-valued F]',
                   lambda f: dict(F=A([[0, 1, 0], [0, 0, 1], [0, 0, 0]], f), Q=np.diag([0.0, 0.25, 0.5])),
                   lambda a: kalman.compute_process_matrices(a['F'], a['Q'], 0.5), ('array', 'int')))
    C.append(Entry('kalman.correct[integer-valued]',
                   lambda f: dict(x=A([1, -2, 0, 3], f), P=A(np.diag([4, 2, 1, 1]) + 1, f), z=A([1, -1], f),
                                  H=A([[1, 0, 0, -1], [0, 2, 1, 0]], f), R=np.array([[2.0, 0.5], [0.5, 1.0]])),
                   lambda a: kalman.correct(a['x'], a['P'], a['z'], a['H'], a['R']), ('array', 'int')))
    C.append(Entry('kalman.correct', lambda f: dict(x=np.array([1.0, -2, 0.5, 3]), P=np.diag([4.0, 2, 1, 0.5]) + 0.1,
                                                    z=np.array([0.3, -1.2]), H=np.array([[1.0, 0.5, 0, -1], [0, 2, 1, 0.25]]),
                                                    R=np.array([[2.0, 0.5], [0.5, 1.0]])),
                   lambda a: kalman.correct(a['x'], a['P'], a['z'], a['H'], a['R'])))
    # ---- strapdown
    C.append(Entry('strapdown.compute_increments_from_imu[rate]', lambda f: dict(imu=imu_table()),
                   lambda a: strapdown.compute_increments_from_imu(a['imu'], 'rate'), schema=cols_are(INCC)))
    C.append(Entry('strapdown.compute_increments_from_imu[increment]', lambda f: dict(imu=imu_table() * 0.1),
                   lambda a: strapdown.compute_increments_from_imu(a['imu'], 'increment'), schema=cols_are(INCC)))

    def integ_program(a):
        it = strapdown.Integrator(a['pva'], a['wa'])
        r1 = it.integrate(a['inc'].iloc[:7])
        p = it.predict(a['inc'].iloc[7])
        t = it.get_time()
        it.set_pva(a['pva2'])
        r2 = it.integrate(a['inc'].iloc[7:])
        return r1, p, t, it.get_pva(), r2, it.trajectory
    for wa in (True, False):
        C.append(Entry('strapdown.Integrator[%s]' % ('3d' if wa else '2d'),
                       lambda f, wa=wa: dict(pva=pva(), pva2=pva(100.7) + 0.01, inc=inc_table(), wa=wa), integ_program,
                       schema=lambda res, args: None if list(res[5].columns) == TRAJ and list(res[0].columns) == TRAJ
                       else 'trajectory columns'))
    # ---- error model
    for wa in (True, False):
        tag = '3d' if wa else '2d'
        em = lambda wa=wa: error_model.InsErrorModel(wa)  # noqa
        C.append(Entry('InsErrorModel.system_matrices[%s]' % tag, lambda f: dict(t=traj_table() if f == 'frame' else traj_table().iloc[3]),
                       lambda a, em=em: em().system_matrices(a['t']), ('frame', 'series'), form_cmp='skip'))
        C.append(Entry('InsErrorModel.transform_to_output[%s]' % tag, lambda f: dict(t=traj_table() if f == 'frame' else traj_table().iloc[3]),
                       lambda a, em=em: em().transform_to_output(a['t']), ('frame', 'series'), form_cmp='skip'))
        C.append(Entry('InsErrorModel.transform_to_internal[%s]' % tag, lambda f: dict(p=pva()),
                       lambda a, em=em: em().transform_to_internal(a['p'])))
        C.append(Entry('InsErrorModel.correct_pva[%s]' % tag,
                       lambda f, wa=wa: dict(p=pva(), x=np.array([1.0, -2, 3, 0.1, -0.2, 0.3, 1e-3, -2e-3, 3e-3])[:9 if wa else 7]),
                       lambda a, em=em: em().correct_pva(a['p'], a['x'])))
        C.append(Entry('InsErrorModel.jacobians[%s]' % tag,
                       lambda f: dict(p=pd.concat([pva(), pd.Series([0.3, -0.5, 0.8], index=['rate_x', 'rate_y', 'rate_z'])]),
                                      l=A([2.0, -1.0, 0.5], f)),
                       lambda a, em=em: (em().position_error_jacobian(a['p'], a['l']), em().ned_velocity_error_jacobian(a['p'], a['l']),
                                         em().body_velocity_error_jacobian(a['p'])), AF))
        # ONE model instance serving several calls (the same-object steps then reuse it with changed contents: an
        # instance-level memo with a wrong invalidation test shows here, not with an instance per call)
        C.append(Entry('InsErrorModel[one instance, %s]' % tag,
                       lambda f, wa=wa: dict(em=error_model.InsErrorModel(wa), p=pva(),
                                             x=np.array([1.0, -2, 3, 0.1, -0.2, 0.3, 1e-3, -2e-3, 3e-3])[:9 if wa else 7]),
                       lambda a: (a['em'].transform_to_output(a['p']), a['em'].transform_to_internal(a['p']),
                                  a['em'].correct_pva(a['p'], a['x']), a['em'].system_matrices(a['p']),
                                  a['em'].transform_to_output(a['p'])), skip=('em',)))
        C.append(Entry('error_model.propagate_errors[%s]' % tag,
                       lambda f: dict(t=traj_table(), e=pd.Series([5.0, -3, 0, 0.2, -0.1, 0, 0.1, -0.2, 0.5], index=TERR),
                                      g=A([1e-5, -2e-5, 3e-5], f), a=A([1e-3, 2e-3, -1e-3], f)),
                       lambda a, wa=wa: error_model.propagate_errors(a['t'], a['e'], a['g'], a['a'], with_altitude=wa), AF,
                       schema=cols_are(TERR, 't')))
    C.append(Entry('error_model.propagate_errors[defaults]', lambda f: dict(t=traj_table()),
                   lambda a: error_model.propagate_errors(a['t']), schema=cols_are(TERR, 't')))
    # ---- inertial sensor
    def est_model():
        return isn.EstimationModel(bias_sd=[1e-4, 0, 2e-4], noise=[1e-5, 1e-5, 0], bias_walk=[1e-6, 0, 0],
                                   scale_misal_sd=[[1e-3, 0, 1e-3], [0, 0, 0], [0, 1e-3, 1e-3]])

    def est_program(a):
        m = isn.EstimationModel(bias_sd=a['b'], noise=a['n'], bias_walk=a['w'], scale_misal_sd=a['s'])
        h1 = m.output_matrix(a['r'])
        m.update_estimates(a['x'])
        c = m.correct_increments(a['inc']['dt'], a['inc'][['theta_x', 'theta_y', 'theta_z']])
        e = m.get_estimates()
        m.reset_estimates()
        return m.states, m.P, m.q, m.v, m.F, m.G, m.H, m.J, h1, c, e, m.get_estimates()
    C.append(Entry('inertial_sensor.EstimationModel', lambda f: dict(b=A([1e-4, 0, 2e-4], f), n=A([1e-5, 1e-5, 0], f), w=A([1e-6, 0, 0], f),
                                                                     s=A([[1e-3, 0, 1e-3], [0, 0, 0], [0, 1e-3, 1e-3]], f),
                                                                     r=A([0.1, -0.2, 0.3], f), x=np.arange(6) * 1e-4, inc=inc_table()),
                   est_program, AF))

    def par_program(a):
        p = isn.Parameters(transform=a['T'], bias=a['b'], noise=a['n'], bias_walk=a['w'], rng=a['rng'])
        out = p.apply(a['r'], 'rate')
        out2 = p.apply(a['r'] * 0.1, 'increment')
        return out, out2, p.data_frame
    for rf in ('int', 'state', 'zero'):
        C.append(Entry('inertial_sensor.Parameters[%s]' % rf,
                       lambda f, rf=rf: dict(T=A(np.eye(3) + [[1e-3, 0, 2e-3], [0, -1e-3, 0], [0, 0, 0]], f), b=A([1e-3, 0, -2e-3], f),
                                             n=A([1e-4, 2e-4, 0], f), w=A([1e-5, 0, 0], f),
                                             rng={'int': 12, 'zero': 0}.get(rf) if rf != 'state' else np.random.RandomState(12),
                                             r=imu_table()[['gyro_x', 'gyro_y', 'gyro_z']]),
                       par_program, AF, skip=('rng',)))
    C.append(Entry('inertial_sensor.Parameters.from_EstimationModel', lambda f: dict(m=est_model()),
                   lambda a: vars(isn.Parameters.from_EstimationModel(a['m'], rng=5)), skip=('rng',)))
    C.append(Entry('inertial_sensor.apply_imu_parameters', lambda f: dict(imu=imu_table(), g=isn.Parameters(bias=[1e-3, 0, 0], noise=1e-4, rng=3),
                                                                          a=isn.Parameters(bias=[0, 0.1, 0], rng=4)),
                   lambda a: isn.apply_imu_parameters(a['imu'], 'rate', a['g'], a['a']), skip=('rng', 'data_frame'),
                   schema=cols_are(IMUC, 'imu')))
    C.append(Entry('inertial_sensor.apply_imu_parameters[defaults]', lambda f: dict(imu=imu_table()),
                   lambda a: isn.apply_imu_parameters(a['imu'], 'increment'), schema=cols_are(IMUC, 'imu')))
    # ---- measurements
    def meas_program(a):
        emd = error_model.InsErrorModel(a['wa'])
        out = []
        for cls, cols, kw in ((measurements.Position, ['lat', 'lon', 'alt'], dict(imu_to_antenna_b=a['l'])),
                              (measurements.NedVelocity, ['VN', 'VE', 'VD'], dict(imu_to_antenna_b=a['l'])),
                              (measurements.BodyVelocity, ['VX', 'VY', 'VZ'], {})):
            d = a['data'][cols]
            mobj = cls(d, 0.5, **kw)
            out.append(mobj.compute_matrices(101.0, a['p'], emd))
            out.append(mobj.compute_matrices(101.25, a['p'], emd))
        return out
    for wa in (True, False):
        C.append(Entry('measurements.compute_matrices[%s]' % ('3d' if wa else '2d'),
                       lambda f, wa=wa: dict(data=pd.concat([traj_table(), traj_table()[['VN', 'VE', 'VD']].rename(
                           columns={'VN': 'VX', 'VE': 'VY', 'VD': 'VZ'})], axis=1),
                           p=pd.concat([pva(101.0), pd.Series([0.3, -0.5, 0.8], index=['rate_x', 'rate_y', 'rate_z'])]),
                           l=A([2.0, -1.0, 0.5], f), wa=wa), meas_program, AF))
    # ---- sim
    tt = lambda: traj_table(41, 0.1)  # noqa
    for typ in ('rate', 'increment'):
        C.append(Entry('sim.generate_imu[lla+vel,%s]' % typ,
                       lambda f: dict(t=A(tt().index.values, f), lla=A(tt()[['lat', 'lon', 'alt']].values, f),
                                      rph=A(tt()[['roll', 'pitch', 'heading']].values, f), v=A(tt()[['VN', 'VE', 'VD']].values, f)),
                       lambda a, typ=typ: sim.generate_imu(np.asarray(a['t']), a['lla'], a['rph'], a['v'], typ), AF,
                       schema=lambda res, args: None if list(res[0].columns) == TRAJ and list(res[1].columns) == IMUC
                       and (np.asarray(res[0].index) == np.asarray(args['t'])).all() else 'trajectory/imu schema'))
    C.append(Entry('sim.generate_imu[lla only]', lambda f: dict(t=tt().index.values.copy(), lla=A(tt()[['lat', 'lon', 'alt']].values, f),
                                                               rph=A(tt()[['roll', 'pitch', 'heading']].values, f)),
                   lambda a: sim.generate_imu(a['t'], a['lla'], a['rph']), AF))
    C.append(Entry('sim.generate_imu[lla0+vel]', lambda f: dict(t=tt().index.values.copy(), lla=A([-33.0, 151.0, 100.0], f),
                                                               rph=A(tt()[['roll', 'pitch', 'heading']].values, f),
                                                               v=A(tt()[['VN', 'VE', 'VD']].values, f)),
                   lambda a: sim.generate_imu(a['t'], a['lla'], a['rph'], a['v']), AF))
    C.append(Entry('sim.generate_sine_velocity_motion', lambda f: dict(lla=A([50.0, 60.0, 100.0], f), vm=A([10.0, -5.0, 0.5], f),
                                                                       va=A([3.0, 3.0, 1.0], f)),
                   lambda a: sim.generate_sine_velocity_motion(0.1, 5.0, a['lla'], a['vm'], a['va'], velocity_change_period=7), AF))
    C.append(Entry('sim.generate_sine_velocity_motion[defaults]', lambda f: dict(lla=A([50.0, 60.0, 100.0], f), vm=A([10.0, -5.0, 0.5], f)),
                   lambda a: sim.generate_sine_velocity_motion(0.1, 3.0, a['lla'], a['vm'], [1.0, 2.0, 0.0]), AF))
    for nm, fn in (('position', sim.generate_position_measurements), ('ned_velocity', sim.generate_ned_velocity_measurements),
                   ('body_velocity', sim.generate_body_velocity_measurements)):
        for rf in ('int', 'state', 'zero'):
            # 'zero': the integer seed 0 (falsy) is a seed like any other
            C.append(Entry('sim.generate_%s_measurements[%s]' % (nm, rf),
                           lambda f, rf=rf: dict(t=traj_table(), rng={'int': 9, 'zero': 0}.get(rf) if rf != 'state'
                                                 else np.random.RandomState(9)),
                           lambda a, fn=fn: fn(a['t'], 0.7, a['rng']), skip=('rng',)))
    C.append(Entry('sim.generate_pva_error', lambda f: dict(), lambda a: sim.generate_pva_error(5.0, 0.2, 0.1, 0.5, 4)))
    C.append(Entry('sim.generate_pva_error[seed 0]', lambda f: dict(), lambda a: sim.generate_pva_error(5.0, 0.2, 0.1, 0.5, 0)))
    C.append(Entry('sim.perturb_pva', lambda f: dict(p=pva(), e=pd.Series([5.0, -3, 2, 0.2, -0.1, 0.1, 0.1, -0.2, 0.5], index=TERR)),
                   lambda a: sim.perturb_pva(a['p'], a['e'])))

    def table_program(a):
        tb = sim.Turntable(a['lla'])
        tb.rotate('inner', 90.0)
        tb.rest(2.0)
        tb.rotate('outer', -45.0, angular_rate=10.0)
        tb2 = sim.Turntable(a['lla'])
        return tb.time, tb.inner_angle, tb.outer_angle, tb.actions, np.asarray(tb.table_rph).tolist(), \
            np.asarray(tb2.table_rph).tolist(), tb2.actions
    C.append(Entry('sim.Turntable[rotate,rest]', lambda f: dict(lla=A([55.0, 37.0, 150.0], f)), table_program, AF))
    # ---- filters (small data)
    def filt_data():
        inc = inc_table(20, 0.1, 100.0)
        tr = traj_table(21, 0.1, 100.0)
        pos = tr.iloc[[3, 9, 15]][['lat', 'lon', 'alt']] + [1e-5, -1e-5, 1.0]
        vel = tr.iloc[[5, 12]][['VN', 'VE', 'VD']] + 0.05
        return inc, tr, pos, vel

    def fb_program(a):
        ms = a['ms']
        r = filters.run_feedback_filter(a['pva'], 5.0, 0.5, 0.5, 1.0, a['inc'], a['gm'], a['am'], measurements=ms,
                                        time_step=0.5, with_altitude=a['wa'])
        return dict(r)

    def ff_program(a):
        ms = a['ms']
        r = filters.run_feedforward_filter(a['tr'], a['tr2'], 5.0, 0.5, 0.5, 1.0, a['gm'], a['am'], measurements=ms,
                                           increments=a['inc'], time_step=0.5, with_altitude=a['wa'])
        return dict(r)

    def filt_schema(res, args):
        if list(res['trajectory'].columns) != TRAJ or list(res['trajectory_sd'].columns) != TERR:
            return 'filter result columns %s / %s' % (list(res['trajectory'].columns), list(res['trajectory_sd'].columns))
        if list(res['gyro'].columns) != list(args['gm'].states) or list(res['gyro_sd'].columns) != list(args['gm'].states):
            return 'sensor estimate columns'
        return None
    for wa in (True, False):
        def mk(f, wa=wa):
            inc, tr, pos, vel = filt_data()
            return dict(pva=tr.iloc[0].copy(), inc=inc, tr=tr, tr2=tr + 1e-6, pos=pos, vel=vel, wa=wa,
                        ms=[measurements.Position(pos, 2.0), measurements.NedVelocity(vel, 0.3)],
                        gm=isn.EstimationModel(bias_sd=1e-4, noise=1e-5, scale_misal_sd=np.diag([1e-3, 0, 1e-3])),
                        am=isn.EstimationModel(bias_sd=0.02, noise=1e-3, bias_walk=1e-4))
        C.append(Entry('filters.run_feedback_filter[%s]' % ('3d' if wa else '2d'), mk, fb_program, skip=('bias', 'transform'),
                       schema=filt_schema))
        C.append(Entry('filters.run_feedforward_filter[%s]' % ('3d' if wa else '2d'), mk, ff_program, skip=('bias', 'transform'),
                       schema=filt_schema))
    C.append(Entry('filters.run_feedback_filter[defaults]', lambda f: dict(pva=traj_table(21, 0.1).iloc[0].copy(), inc=inc_table()),
                   lambda a: dict(filters.run_feedback_filter(a['pva'], 5.0, 0.5, 0.5, 1.0, a['inc']))))
    C.append(Entry('filters.run_feedforward_filter[defaults]', lambda f: dict(tr=traj_table(21, 0.1)),
                   lambda a: dict(filters.run_feedforward_filter(a['tr'], a['tr'], 5.0, 0.5, 0.5, 1.0))))
    return C


_CAT = None


def catalogue():
    global _CAT
    if _CAT is None:
        _CAT = build_catalogue()
    return _CAT


def gen_cases(tier, seed):
    # building the catalogue only defines closures: no library function is called in the parent process
    n = len(catalogue())
    return [dict(g=i, tier=tier) for i in range(n)] + [dict(after=i, tier=tier) for i in range(n)]


def run_after(case):
    """One pristine process: entry f first, then the FIRST call of every other entry g in this process.  The
    digests are compared (cross_check, in the parent) with the first-call digests of the per-entry processes: a
    'first writer wins' cache, a mutated module-level default or any other state f leaves behind shows up as a
    different first result of g."""
    cat = catalogue()
    fi = case['after']
    viol = []
    digests = {}
    order = [fi] + [i for i in range(len(cat)) if i != fi]
    calls = 0
    for i in order:
        try:
            res, _, msg = execute(cat[i], cat[i].forms[0])
            digests[i] = digest(res)
            calls += 1
        except Exception as e:  # noqa
            viol.append(dict(sig='c19-entry-raises:' + cat[i].name, msg='%s raised %s: %s (history starts with %s)'
                             % (cat[i].name, type(e).__name__, str(e)[:120], cat[fi].name)))
    return dict(viol=viol, key='after:' + cat[fi].name, nontrivial=True, stats=dict(calls=calls), calls=calls,
                pairs=len(order) - 1, name='after:' + cat[fi].name, digests=digests, order=order)


def run_pair(case):
    """Replay of one cross-process disagreement: baseline of g from a fresh child process, then the recorded history
    followed by g in this process."""
    import subprocess
    import sys
    import os
    cat = catalogue()
    gi = case['g_first_after']
    code = ('import sys; sys.path[:0] = %r; from mc.props import c19; e = c19.catalogue()[%d]; '
            'print("DIGEST", c19.digest(c19.execute(e, e.forms[0])[0]))' % (sys.path[:3], gi))
    out = subprocess.run([sys.executable, '-c', code], capture_output=True, text=True, env=dict(os.environ))
    base = [l.split()[1] for l in out.stdout.splitlines() if l.startswith('DIGEST')]
    if not base:
        raise RuntimeError('baseline child failed: ' + out.stderr[-500:])
    for i in case['history']:
        execute(cat[i], cat[i].forms[0])
    got = digest(execute(cat[gi], cat[gi].forms[0])[0])
    viol = []
    if got != base[0]:
        viol.append(dict(sig='c19-history-dependence:%s' % cat[gi].name, msg=case.get('msg', 'differs')))
    return dict(viol=viol, key=None, nontrivial=True, stats={})


def cross_check(cases, results):
    cat = catalogue()
    base = {}
    for c, r in zip(cases, results):
        if 'g' in c and r.get('base_digest') is not None:
            base[c['g']] = r['base_digest']
    out = []
    for idx, (c, r) in enumerate(zip(cases, results)):
        if 'after' not in c or 'digests' not in r:
            continue
        order = r['order']
        for pos, gi in enumerate(order):
            d = r['digests'].get(gi)
            if d is None or gi not in base or d == base[gi]:
                continue
            hist = order[:pos]
            msg = ('%s, called for the first time in a process after %s, gives a different result than as the very first '
                   'call of a fresh process (history: %s)' % (cat[gi].name, cat[order[0]].name,
                                                              [cat[i].name for i in hist][-4:]))
            out.append((idx, dict(sig='c19-history-dependence:%s' % cat[gi].name, msg=msg,
                                  replay_case=dict(g_first_after=gi, history=hist, msg=msg))))
            break
    return out


def execute(entry, form):
    """Run one entry: returns (result, purity message or None)."""
    args = entry.make(form)
    before = snap(args, entry.skip)
    res = entry.call(args)
    after = snap(args, entry.skip)
    msg = None
    if before != after:
        changed = [k for (k, a), (_, b) in zip(before[1:], after[1:]) if a != b] if before[0] == 'dict' else ['?']
        msg = 'argument(s) %s modified by the call' % changed
    return res, args, msg


def run_case(case):
    if 'after' in case:
        return run_after(case)
    if 'g_first_after' in case:
        return run_pair(case)
    cat = catalogue()
    g = cat[case['g']]
    viol = []
    calls = 0

    def v(sig, msg):
        if len(viol) < 20:
            viol.append(dict(sig=sig, msg=msg))

    # 1. g alone (first pyins call in this process), every form
    base = {}
    results = {}
    for form in g.forms:
        res, args, msg = execute(g, form)
        calls += 1
        if msg:
            v('c19-argument-mutated:' + g.name, '%s (%s form): %s' % (g.name, form, msg))
        if g.schema is not None:
            s = g.schema(res, args)
            if s:
                v('c19-schema:' + g.name, '%s: %s' % (g.name, s))
        base[form] = digest(res)
        results[form] = res
    # forms agree
    if len(g.forms) > 1 and g.form_cmp != 'skip':
        f0 = g.forms[0]
        for f in g.forms[1:]:
            if base[f] != base[f0]:
                a, b = flat_numbers(results[f0]), flat_numbers(results[f])
                # same values: memory layout (C/F order of a table's block) and pandas/numpy reduction order may
                # differ in the last bits, nothing more
                scale = np.abs(a).max() if a.size else 1.0
                if a.shape != b.shape or not np.allclose(a, b, rtol=16 * EPS, atol=16 * EPS * scale, equal_nan=True):
                    v('c19-forms-disagree:' + g.name, '%s: %s and %s forms give different values (max diff %s)'
                      % (g.name, f0, f, np.abs(a - b).max() if a.shape == b.shape else 'shape'))
    # 2. g twice
    for form in g.forms:
        res, _, msg = execute(g, form)
        calls += 1
        if digest(res) != base[form]:
            v('c19-repeat-differs:' + g.name, '%s (%s form): second call differs from the first' % (g.name, form))
    # 2b. the SAME argument objects again after their contents changed in place: the result must follow the contents
    # (a memo keyed by, or aliasing, the caller's array would return the stale result)
    import copy
    def perturb(args, mode='all'):
        """mode 'all': every non-zero element changes; 'one': a single element per array changes (a memo whose
        invalidation test asks whether EVERYTHING changed, or looks at the first elements only, survives 'all')."""
        changed = False

        def mask(a):
            nz = (a != 0)
            if mode == 'all' or not nz.any():
                return nz
            m_ = np.zeros(a.shape, dtype=bool)
            flat = np.flatnonzero(nz.ravel())
            # small arrays: the k-th non-zero element; large ones: one of three spread positions
            pos = int(mode[4:])
            k_ = pos % len(flat) if len(flat) <= 12 else ((1 + 2 * (pos % 3)) * len(flat)) // 6
            m_.ravel()[flat[k_]] = True
            return m_
        for k_, val in args.items():
            if isinstance(val, np.ndarray) and val.dtype.kind == 'f' and val.flags.writeable and k_ not in g.skip:
                val += 1e-3 * (1.0 + np.abs(val)) * mask(val)
                changed = True
            elif isinstance(val, pd.Series) and val.dtype.kind == 'f' and k_ not in g.skip:
                val.iloc[:] = val.values + 1e-3 * (1.0 + np.abs(val.values)) * mask(val.values)
                changed = True
            elif isinstance(val, pd.DataFrame) and all(d_.kind == 'f' for d_ in val.dtypes) and k_ not in g.skip:
                val.iloc[:, :] = val.values + 1e-3 * (1.0 + np.abs(val.values)) * mask(val.values)
                changed = True
        return changed

    # 'one:k': small arguments get every element changed alone in turn (a result need not depend on every element)
    for form, pmode in [(f_, m_) for f_ in g.forms for m_ in ['all'] + ['one:%d' % k_ for k_ in range(9)]]:
        try:
            a_ref = g.make(form)
            if any(isinstance(x_, np.random.RandomState) or isinstance(getattr(x_, 'rng', None), np.random.RandomState)
                   for x_ in a_ref.values()):
                continue                               # a consumed random stream is documented state
            if not perturb(a_ref, pmode):
                continue
            r_ref = g.call(copy.deepcopy(a_ref))       # reference for the changed contents, computed first
            a1 = g.make(form)
            r_first = g.call(a1)                       # call with the original contents ...
            d_first = digest(r_first)
            perturb(a1, pmode)                         # ... change the caller's arrays in place ...
            r_same = g.call(a1)                        # ... and call again with the very same objects
            calls += 3
            if digest(r_first) != d_first:
                v('c19-returned-result-changed-later:' + g.name, '%s (%s form): the result of an earlier call changed when '
                  'the function was called again with other values (it aliases internal state)' % (g.name, form))
            if digest(r_same) != digest(r_ref):
                v('c19-stale-result-for-same-object:' + g.name, '%s (%s form): after the argument arrays were changed in '
                  'place, calling again with the same objects does not follow the new contents' % (g.name, form))
        except Exception:  # noqa  (a perturbed argument may be invalid for the entry: nothing to compare then)
            pass
    # 2c. the caller overwrites what it was handed, then calls again with equal inputs: the second result must
    # equal the first (a function that hands out its cache, a module-level template or a default object fails)
    for form in g.forms:
        try:
            r1 = g.call(g.make(form))
            calls += 1
            if digest(r1) != base[form]:
                continue                               # already reported by the repeat check
            if not scribble(r1):
                continue
            r2 = g.call(g.make(form))
            calls += 1
            if digest(r2) != base[form]:
                v('c19-result-shared-with-later-calls:' + g.name, '%s (%s form): after the caller overwrote the arrays '
                  'returned by one call, the next call with equal inputs returns different values (the function hands '
                  'out internal state)' % (g.name, form))
        except Exception as e:  # noqa
            v('c19-entry-raises:' + g.name, '%s raised %s after a returned result was overwritten: %s'
              % (g.name, type(e).__name__, str(e)[:120]))
    # 3. g after every f (all ordered pairs, accumulating history)
    form_g = g.forms[0]
    history = []
    for fi, f in enumerate(cat):
        for form in (f.forms if case['tier'] == 'thorough' else f.forms[:1]):
            try:
                execute(f, form)
            except Exception as e:  # noqa
                v('c19-entry-raises:' + f.name, '%s raised %s: %s' % (f.name, type(e).__name__, str(e)[:120]))
            calls += 1
        history.append(f.name)
        res, _, msg = execute(g, form_g)
        calls += 1
        if msg:
            v('c19-argument-mutated:' + g.name, '%s after %s: %s' % (g.name, f.name, msg))
        if digest(res) != base[form_g]:
            v('c19-history-dependence:%s' % g.name,
              '%s gives a different result after calling %s (history: last 3 = %s) than as the first call in a '
              'fresh process' % (g.name, f.name, history[-3:]))
            break
    first = {}
    for x in viol:
        first.setdefault(x['sig'], x)
    return dict(viol=list(first.values()), key=g.name, nontrivial=True,
                stats=dict(calls=calls, pairs=len(history)), calls=calls, pairs=len(history), name=g.name,
                base_digest=base[g.forms[0]])


def finalize(cases, results, tier):
    calls = sum(r.get('calls', 0) for r in results)
    pairs = sum(r.get('pairs', 0) for r in results)
    return dict(states=pairs + len(results), transitions=calls, traces_validated_against_impl=len(results),
                distinct_nontrivial=pairs, catalogue=[r.get('name') for r in results if not str(r.get('name')).startswith('after:')],
                not_exercisable=['sim.Turntable.generate_imu (raises inside the installed scipy)'],
                explanation='one pristine process per entry g; every call is a real call of the public API; '
                            'states = program points (g after history h), transitions = calls')

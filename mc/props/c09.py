"""C09 - feedback filter handles every IMU/measurement interleaving exactly once.

Engine E2 (mc/schedx.py) on the real `run_feedback_filter`; declarative oracle computed
from the schedule alone: trajectory index = start + every increment time once; one
innovation row per in-span sample stamped with its own time; nothing for the others.
"""
import hashlib

import numpy as np

from mc import schedx
from mc.props import c10 as _c10

ID = 'C09'
LEVEL = 'model_checking'
CASE_TIMEOUT = 90
BATCH = 24
RULE = _c10.RULE.replace('feedforward', 'feedback')
ASSUMPTIONS = list(_c10.ASSUMPTIONS)
NAMES = {'P': 'Position', 'V': 'NedVelocity', 'B': 'BodyVelocity'}


def gen_cases(tier, seed):
    cases = _c10.gen_cases(tier, seed)
    for c in cases:
        c.pop('with_inc', None)
    return cases


def check_fb(case, obs):
    viol = []

    def v(sig, msg):
        viol.append(dict(sig=sig, msg=msg))

    times, slots, by = obs['times'], obs['slots'], obs['by']
    t0, tend = times[0], times[-1]
    clustered = _c10._clustered(case, obs)
    tag = 'clustered' if clustered else 'sparse'
    # cursor trace: IMU cursor never decreases
    st = [s for s in obs['states'] if s is not None]
    if any(b[0] < a[0] for a, b in zip(st[:-1], st[1:])):
        v('fb-imu-cursor-decreases:' + tag, 'IMU cursor goes backwards: %s' % st)
    if obs['err'] is not None:
        if obs['err'][0] == 'loop':
            v('fb-nontermination:' + tag, 'feedback loop does not terminate: %s; trace %s'
              % (obs['err'][1], obs['states'][-6:]))
        else:
            cls = 'defaults' if not case['samples'] else tag
            v('fb-exception:%s:%s' % (obs['err'][1].split(':')[0], cls), obs['err'][1])
        return viol
    res = obs['res']
    traj = res['trajectory']
    idx = np.asarray(traj.index, dtype=float)
    if len(idx) != len(times) or (idx != times).any():
        v('fb-trajectory-index:' + tag, 'trajectory index %s is not start + every increment '
          'time exactly once %s' % (idx.tolist(), times.tolist()))
    if not schedx.finite_table(traj):
        v('fb-nonfinite:trajectory', 'trajectory has non-finite values')
    if list(traj.columns) != ['lat', 'lon', 'alt', 'VN', 'VE', 'VD', 'roll', 'pitch', 'heading']:
        v('fb-trajectory-columns', 'trajectory columns %s' % list(traj.columns))
    ref = None
    for name in ['trajectory_sd', 'gyro', 'gyro_sd', 'accel', 'accel_sd']:
        df = res[name]
        ii = np.asarray(df.index, dtype=float)
        if not schedx.finite_table(df):
            v('fb-nonfinite:' + name, '%s has non-finite values' % name)
        if len(ii) == 0:
            v('fb-table-empty', '%s is empty' % name)
            continue
        if not (np.diff(ii) > 0).all():
            v('fb-sd-index-not-increasing:' + tag, '%s index not strictly increasing: %s'
              % (name, ii.tolist()))
        if not np.isin(ii, times).all():
            v('fb-sd-index-not-subset', '%s index is not a subset of the trajectory times'
              % name)
        if ii[0] != t0:
            v('fb-sd-index-start', '%s index does not start at the initial time' % name)
        if ref is None:
            ref = ii
        elif len(ii) != len(ref) or (ii != ref).any():
            v('fb-sd-index-mismatch', '%s index differs from trajectory_sd index' % name)
    if ref is not None and len(ref) > 1 and (np.diff(ref) > 0).all() and np.isin(ref, times).all():
        step = obs['step']
        tol = 4 * np.spacing(tend)
        for a, b in zip(ref[:-1], ref[1:]):
            ia = int(np.searchsorted(times, a))
            gap = times[ia + 1] - a
            if b - a > max(step, gap) + tol:
                v('fb-step-too-long', 'covariance rows step from %r to %r > max(time_step=%r, '
                  'gap=%r)' % (a, b, step, gap))
                break
    # sensor-estimate tables carry the states of the models that were passed (none for the defaults)
    for nm_, mod_ in (('gyro', obs.get('gm')), ('accel', obs.get('am'))):
        want = list(mod_.states) if mod_ is not None else []
        for suffix in ('', '_sd'):
            if list(res[nm_ + suffix].columns) != want:
                v('%s-sensor-table-columns' % 'fb', '%s%s columns %s, model states %s'
                  % (nm_, suffix, list(res[nm_ + suffix].columns), want))
    # use-once via spy log and innovation tables
    log = obs['log']
    used = [(k, t) for (k, t, ok, nz) in log if ok]
    ut = [t for _, t in used]
    if any(b < a for a, b in zip(ut[:-1], ut[1:])):
        v('fb-use-order', 'samples used out of time order: %s' % used)
    for k in by:
        exp = sorted(t for t in by[k] if t0 <= t < tend)
        got = sorted(t for kk, t in used if kk == k)
        if got != exp:
            missing = [t for t in exp if t not in got]
            extra = sorted({t for t in got if got.count(t) > exp.count(t)})
            if missing:
                where = 'last-interval' if all(t >= times[-2] for t in missing) else 'inner'
                v('fb-sample-unused:%s:%s' % (tag, where), 'sensor %s samples at %s never used '
                  '(expected %s, used %s)' % (k, missing, exp, got))
            if extra:
                outside = [t for t in extra if not (t0 <= t < tend)]
                if outside:
                    v('fb-sample-outside-used', 'sensor %s sample outside [start,end) used: %s'
                      % (k, outside))
                else:
                    v('fb-sample-reused:' + tag, 'sensor %s samples reused: %s' % (k, extra))
        if case.get('form', 'list') == 'list' and by[k]:
            inn = res['innovations'].get(NAMES[k])
            if inn is None:
                v('fb-innovation-missing', 'no innovation table for %s' % NAMES[k])
                continue
            ii = [float(t) for t in inn.index]
            if ii != exp:
                v('fb-innovation-index:' + tag, '%s innovation index %s, expected the in-span '
                  'sample times %s' % (NAMES[k], ii, exp))
            if len(inn) and not schedx.finite_table(inn):
                v('fb-nonfinite:innovations', 'non-finite innovations')
            if len(inn):
                width = 3 if (case['wa'] or k == 'B') else 2
                if inn.shape[1] != width:
                    v('fb-innovation-width', '%s innovation has %d columns, expected %d'
                      % (NAMES[k], inn.shape[1], width))
    # tail replay: after the last correction the filter is plain strapdown integration of the increments
    # compensated with its (now constant) sensor estimates.  The rows from the corrected one on are reproduced
    # with a fresh integrator started from the corrected row and the models' own public correct_increments.
    if not viol and len(idx) == len(times):
        tail = tail_replay(case, obs, max(ut) if ut else None)
        if tail is not None:
            obs['tail_tight'] = tail[0]
            if tail[0] > 1.0:
                v('fb-tail-not-plain-integration:' + tag, 'rows after the last correction (epoch %r) are not the strapdown '
                  'integration of the increments compensated with the final sensor estimates: %s' % (max(ut) if ut else None, tail[1]))
    return viol


TAIL_TOL = dict(lat=1e-13, lon=1e-13, alt=1e-8, VN=1e-10, VE=1e-10, VD=1e-10, roll=1e-11, pitch=1e-11, heading=1e-11)


def tail_replay(case, obs, t_last):
    from pyins import strapdown
    times, inc, traj = obs['times'], obs['inc'], obs['res']['trajectory']
    k = 0 if t_last is None else int(np.searchsorted(times, t_last, side='right')) - 1
    if k < 0 or k >= len(times) - 1:
        return None
    rest = inc[inc.index > times[k]]
    cor = rest.copy()
    for mod, cols in ((obs.get('gm'), ['theta_x', 'theta_y', 'theta_z']), (obs.get('am'), ['dv_x', 'dv_y', 'dv_z'])):
        if mod is not None:
            cor[cols] = mod.correct_increments(rest['dt'], rest[cols])
    integ = strapdown.Integrator(traj.iloc[k], case['wa'])
    integ.integrate(cor)
    got, exp = integ.trajectory, traj.iloc[k:]
    worst, what = 0.0, ''
    for c, tol in TAIL_TOL.items():
        d = np.abs(got[c].values - exp[c].values)
        if c in ('roll', 'heading'):
            d = np.abs((got[c].values - exp[c].values + 180.0) % 360.0 - 180.0)
        r = float(d.max() / tol)
        if r > worst:
            worst, what = r, '%s differs by %.3e (tol %.0e) from row %d on' % (c, d.max(), tol, k)
    return worst, what


def run_case(case):
    obs = schedx.run_filter('fb', case)
    viol = check_fb(case, obs)
    times = obs['times']
    in_span = sum(1 for s, _ in case['samples'] if times[0] <= obs['slots'][s] < times[-1])
    trace = [list(s) if s is not None else None for s in obs['states']]
    h = hashlib.sha1(repr((case['pattern'], case['n'], case['step'], case['wa'], case['models'],
                           trace, [(k, t, ok) for k, t, ok, _ in obs['log']])).encode())
    return dict(viol=viol, key=h.hexdigest()[:16],
                nontrivial=(len(trace) >= 3 or in_span >= 1),
                stats=dict(loop_iterations=len(trace), spy_calls=len(obs['log']),
                           in_span_samples=in_span, monitor_degraded=int(obs['degraded']),
                           tail_replays=int('tail_tight' in obs), max_tight_tail=float(obs.get('tail_tight', 0.0))),
                trace=trace, cfg=[case['pattern'], case['n'], case['step']])


def finalize(cases, results, tier):
    d = _c10.finalize(cases, results, tier)
    d['explanation'] = d['explanation'].replace(
        '(configuration, index, measurement_time_index)',
        '(configuration, increments_index, measurement_time_index, trajectory length)')
    return d

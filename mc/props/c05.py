"""C05 - error-state coordinates, correction and output transforms agree.

Engine E3: full pva lattice x error directions x magnitude ladder x both altitude modes on
the real InsErrorModel / compute_state_difference / perturb_pva.  Oracles: left-inverse
identity; second-order residual law on the magnitude ladder; exact zeros in 2D; the
correction itself against the written-out convention (mc/truth/errstate.py).
"""
import itertools

import numpy as np
import pandas as pd

from mc.truth import errstate

ID = 'C05'
LEVEL = 'exploration'
CASE_TIMEOUT = 600
BATCH = 4
EPS = np.finfo(float).eps
COLS = ['lat', 'lon', 'alt', 'VN', 'VE', 'VD', 'roll', 'pitch', 'heading']
ERR_COLS = ['north', 'east', 'down', 'VN', 'VE', 'VD', 'roll', 'pitch', 'heading']
RULE = ('full product lat x lon x pitch x roll x heading x velocity; at every point all +-unit error '
        'directions (9 output / 9 or 7 internal) and 4 mixed vectors on the magnitude ladder '
        '{1, 1e-1, 1e-2, 1e-3} x (10 m, 1 m/s, 1 deg cos(pitch)), both altitude modes. Non-trivial = '
        'non-level attitude or non-zero velocity; distinct = distinct lattice points.')
ASSUMPTIONS = ['residual law: second order in the error magnitude (ratio >= 10^1.7 per decade above the '
               'round-off floor) and <= 1e-2 of the first-order term at the smallest magnitude',
               'lattice |lat| <= 85, |pitch| <= 85']
LADDER = [1.0, 1e-1, 1e-2, 1e-3]
MIXED = [np.array([1, -1, 0.5, 0.7, -0.3, 0.2, 0.5, -1, 0.8]), np.array([-0.3, 0.8, -1, -1, 0.6, 0.4, -0.9, 0.2, 1]),
         np.array([0.5, 0.5, 0.5, 0.5, 0.5, 0.5, 1, 1, 1]), np.array([1, 0, 0, 0, 1, 0, 0, 0, -1.0])]


def gen_cases(tier, seed):
    ph = (seed % 8)
    if tier == 'quick':
        lats, lons = (-85.0, 0.0, 60.0), (-170.0, 10.0 + ph)
        pitches, rolls = (-85.0, 0.0, 40.0 + ph), (-170.0, 0.0, 100.0 + ph)
        heads, vels = (-135.0, 0.0, 179.0 - ph), (0, 2)
    else:
        lats, lons = (-85.0, -30.0, 0.0, 60.0, 85.0), (-170.0, 10.0 + ph)
        pitches, rolls = (-85.0, -40.0, 0.0, 40.0 + ph, 85.0), (-170.0, -30.0, 0.0, 100.0 + ph)
        heads, vels = (-135.0, 0.0, 60.0 + ph, 179.0 - ph), (0, 1, 2)
    # fractional values: an integer-valued lattice would hide a truncation to an integer dtype
    V = [(0.0, 0.0, 0.0), (30.25, -40.6, 5.3), (-200.7, 200.4, -20.9)]
    return [dict(pva=[la, lo, 1200.0, *V[v], r, p, h]) for la, lo, p, r, h, v in
            itertools.product(lats, lons, pitches, rolls, heads, vels)]


def scaled(v, unit):
    return np.asarray(v, dtype=float) / unit


def run_case(case):
    from pyins import error_model, transform, sim
    pva_arr = np.array(case['pva'], dtype=float)
    pva = pd.Series(pva_arr, index=COLS, name=3.0)
    cp = np.cos(np.deg2rad(pva_arr[7]))
    unit_out = np.array([10.0, 10.0, 10.0, 1.0, 1.0, 1.0, cp, cp, cp])           # m, m/s, deg
    unit_int = np.array([10.0, 10.0, 10.0, 1.0, 1.0, 1.0] + [np.deg2rad(cp)] * 3)  # m, m/s, rad
    viol = []
    stats = {}

    def v(sig, msg):
        viol.append(dict(sig=sig, msg=msg))

    def tight(name, val):
        stats['max_tight_' + name] = max(stats.get('max_tight_' + name, 0.0), float(val))

    # round-off floor of a state difference in scaled units
    floor = max(64 * EPS * 6.4e6 / 10.0, 64 * EPS * 400.0, 64 * EPS * 360.0 / cp)
    n_eval = 0
    for wa in (True, False):
        em = error_model.InsErrorModel(wa)
        n = em.n_states
        To = em.transform_to_output(pva)
        To_at_call = To.copy()
        Ti = em.transform_to_internal(pva)
        Ti_at_call = Ti.copy()
        if To.shape != (9, n) or Ti.shape != (n, 9):
            v('c05-shapes', 'transform shapes %s %s for n_states=%d' % (To.shape, Ti.shape, n))
            continue
        # (i) left inverse
        e = np.abs(Ti @ To - np.eye(n)).max()
        tol = 64 * EPS * np.linalg.cond(em._transform_to_output_3d(pva)) if hasattr(em, '_transform_to_output_3d') \
            else 1e-9
        tight('left_inverse', e / tol)
        if e > tol:
            v('c05-left-inverse', 'transform_to_internal @ transform_to_output differs from I by %.2e '
              '(with_altitude=%s)' % (e, wa))
        # (v) Series vs one-row DataFrame
        To_df = em.transform_to_output(pva.to_frame().T)
        if To_df.shape != (1, 9, n) or (To_df[0] != To).any():
            v('c05-forms', 'transform_to_output of a one-row DataFrame differs from the Series form')
        # ... and a three-row table against its rows one by one (both directions)
        pva_b = pva.copy()
        pva_b[['VN', 'VE', 'VD']] = pva_b[['VN', 'VE', 'VD']].values * -0.37 + 0.21
        pva_b['heading'] = (pva_b['heading'] + 11.3 + 180.0) % 360.0 - 180.0
        pva_b.name = 4.0
        tab = pd.DataFrame([pva, pva_b, pva])
        for fn_name in ('transform_to_output', 'transform_to_internal'):
            fn = getattr(em, fn_name)
            stacked = fn(tab)
            rows = [fn(pva), fn(pva_b), fn(pva)]
            if stacked.shape != (3,) + rows[0].shape or any((stacked[i_] != rows[i_]).any() for i_ in range(3)):
                v('c05-forms', '%s of a three-row table differs from the row-by-row results (with_altitude=%s)' % (fn_name, wa))
            if not wa and fn_name == 'transform_to_output' and ((stacked[:, 2] != 0.0).any() or (stacked[:, 5] != 0.0).any()):
                v('c05-2d-rows-nonzero', 'down / VD rows of transform_to_output (table form) are not exactly zero in 2D')
        # (iv) exact zeros in 2D
        if not wa:
            if (To[2] != 0.0).any() or (To[5] != 0.0).any():
                v('c05-2d-rows-nonzero', 'down / VD rows of transform_to_output are not exactly zero in 2D')
        idx3 = list(range(9)) if wa else [0, 1, 3, 4, 6, 7, 8]
        dirs = []
        for k in range(n):
            for s in (1.0, -1.0):
                d = np.zeros(n)
                d[k] = s
                dirs.append(d)
        for mvec in MIXED:
            dirs.append(mvec[idx3])
        ui = unit_int[idx3]
        for d in dirs:
            res, first_order = [], []
            for eps in LADDER:
                x = eps * d * ui
                n_eval += 1
                snap = pva.values.copy()
                corrected = em.correct_pva(pva, x)
                if (pva.values != snap).any():
                    v('c05-arg-mutated', 'correct_pva modified its argument')
                if list(corrected.index) != COLS:
                    v('c05-correct-schema', 'correct_pva result index %s' % list(corrected.index))
                    break
                if not wa and (corrected['alt'] != pva['alt'] or corrected['VD'] != pva['VD']):
                    v('c05-2d-correct-changes-vertical', 'correct_pva changed alt or VD in 2D mode '
                      '(alt %r -> %r, VD %r -> %r)' % (pva['alt'], corrected['alt'], pva['VD'], corrected['VD']))
                # the correction against the written-out convention
                x9 = np.zeros(9)
                x9[idx3] = x
                if not wa:
                    x9[5] = pva_arr[4] * x9[6] - pva_arr[3] * x9[7]      # DV3 = VE PHI1 - VN PHI2 (2D embedding)
                ref = errstate.correct(pva_arr, x9)
                if not wa:
                    ref[2], ref[5] = pva_arr[2], pva_arr[5]
                dref = corrected.values - ref
                dref[8] = (dref[8] + 180) % 360 - 180
                dref[6] = (dref[6] + 180) % 360 - 180
                dref[1] = (dref[1] + 180) % 360 - 180
                sc = np.array([1e-9, 1e-9 / cp if False else 1e-9, 1e-6, 1e-9, 1e-9, 1e-9, 1e-9 / cp, 1e-9 / cp, 1e-9 / cp])
                if (np.abs(dref) > sc).any():
                    v('c05-correct-convention', 'correct_pva differs from the written-out convention by %s '
                      '(x=%s, with_altitude=%s)' % (np.round(dref, 12).tolist(), x9.tolist(), wa))
                # (ii) difference vs first-order prediction
                diff = transform.compute_state_difference(pva, corrected)
                if list(diff.index) != ERR_COLS:
                    v('c05-difference-schema', 'compute_state_difference index %s' % list(diff.index))
                    break
                pred = To @ x
                r = np.abs(scaled(diff.values - pred, unit_out)).max()
                res.append(r)
                first_order.append(np.abs(scaled(pred, unit_out)).max())
            else:
                # second order: residual falls by >= 10^1.7 per decade above the floor; first order right
                for i in range(len(LADDER) - 1):
                    if res[i + 1] > 30 * floor and res[i] > 0:
                        ratio = res[i] / res[i + 1]
                        tight('order_ratio_inv', 10 ** 1.7 / ratio)
                        if ratio < 10 ** 1.7:
                            v('c05-residual-order:%s' % ('3d' if wa else '2d'),
                              'difference(pva, correct(pva, eps x)) - T_out eps x is not second order: '
                              'residuals %s down the ladder (direction %s, with_altitude=%s)'
                              % (['%.2e' % q for q in res], d.tolist(), wa))
                            break
                allowed = 1e-2 * first_order[-1] + 30 * floor
                tight('first_order', res[-1] / allowed)
                if res[-1] > allowed:
                    v('c05-first-order:%s' % ('3d' if wa else '2d'),
                      'difference(pva, correct(pva, x)) differs from T_out x at first order: residual %.2e '
                      'vs first-order term %.2e at the smallest magnitude (direction %s, with_altitude=%s)'
                      % (res[-1], first_order[-1], d.tolist(), wa))
        # (iii) perturb with an output-space error, correct with the corresponding internal vector
        out_dirs = []
        for k in range(9):
            if not wa and k in (2, 5):
                continue
            for s in (1.0, -1.0):
                d = np.zeros(9)
                d[k] = s
                out_dirs.append(d)
        for mvec in MIXED[:2]:
            d = mvec.copy()
            if not wa:
                d[2] = d[5] = 0.0
            out_dirs.append(d)
        for d in out_dirs:
            res = []
            for eps in LADDER:
                e_out = pd.Series(eps * d * unit_out, index=ERR_COLS)
                n_eval += 1
                pe = sim.perturb_pva(pva, e_out)
                x = em.transform_to_internal(pe) @ e_out.values
                back = em.correct_pva(pe, x)
                dd = transform.compute_state_difference(back, pva)
                res.append(np.abs(scaled(dd.values, unit_out)).max())
            for i in range(len(LADDER) - 1):
                if res[i + 1] > 30 * floor and res[i] > 0:
                    ratio = res[i] / res[i + 1]
                    if ratio < 10 ** 1.7:
                        v('c05-perturb-correct-order:%s' % ('3d' if wa else '2d'),
                          'perturb_pva then correct_pva does not restore the state to second order: '
                          'residuals %s (output direction %s, with_altitude=%s)'
                          % (['%.2e' % q for q in res], d.tolist(), wa))
                        break
            allowed = 1e-2 * LADDER[-1] + 30 * floor
            tight('perturb_correct', res[-1] / allowed)
            if res[-1] > allowed:
                v('c05-perturb-correct-first-order:%s' % ('3d' if wa else '2d'),
                  'perturb_pva then correct_pva leaves a first-order residual %.2e (direction %s, '
                  'with_altitude=%s)' % (res[-1], d.tolist(), wa))
        # matrices handed out at the beginning must still be what they were (many calls on other states later)
        if (To != To_at_call).any() or (Ti != Ti_at_call).any():
            v('c05-returned-matrix-changed-later', 'a matrix returned by transform_to_output / transform_to_internal changed '
              'when the functions were called again for other states (with_altitude=%s)' % wa)
    first = {}
    for x in viol:
        first.setdefault(x['sig'], x)
    stats['evaluations'] = n_eval
    nontrivial = bool(np.abs(pva_arr[3:8]).max() > 0)
    return dict(viol=list(first.values()), key=repr(case['pva']), nontrivial=nontrivial, stats=stats)

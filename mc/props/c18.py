"""C18 - state differencing, resampling and perturbation obey their algebra.

Engine E3 over a table-pair alphabet: a 12-row base table (irregular dyadic stamps, heading
crossing +-180, pitch up to 85 deg) against itself, EVERY sub-sampling (2^12), shifted,
denser, overlapping and disjoint tables, in both argument orders, over all column subsets
and Series pairs; reference = boring table algebra written here (np.interp, own SLERP,
own metre conversion).  Exact identities are bitwise.
"""
import itertools

import numpy as np
import pandas as pd

from mc.truth import geo, rot

ID = 'C18'
LEVEL = 'exploration'
CASE_TIMEOUT = 900
BATCH = 4
EPS = np.finfo(float).eps
D2R = np.pi / 180
LLA, VEL, RPH = ['lat', 'lon', 'alt'], ['VN', 'VE', 'VD'], ['roll', 'pitch', 'heading']
COLS = LLA + VEL + RPH
RULE = ('sub-sampling cases: blocks of 128 of the 2^12 row subsets of the base table (>= 2 rows), each '
        'differenced against the base table in both orders; pair cases: shifted / denser / overlapping / '
        'disjoint second operands x both orders x all 7 column-subset unions (+ one extra column); Series '
        'pairs; resample cases; angle cases: every angle of the alphabet in 5 call forms. Non-trivial = '
        'result non-empty; distinct = distinct (operand pair, order, column subset) / angles.')
ASSUMPTIONS = ['reference table algebra: np.interp per column, shortest-arc SLERP on rotation matrices, metres '
               'with radii at the mean latitude/altitude', 'attitude columns of self/sub-sample differences are '
               'compared with zero under the known finding F-C18-a (<= 1e-10 deg)']


def base_table(phase=0.0):
    t = np.array([0, 0.5, 0.75, 1.5, 2.0, 2.25, 3.0, 4.0, 4.125, 5.0, 5.5, 6.0]) + 100.0
    return analytic_table(t, phase)


VARIANT = 'plain'      # set per case: 'seam' = inverted flight next to the 180th meridian


def analytic_table(t, phase=0.0):
    s = t - 100.0
    head = 150.0 + 11.0 * s + 3.0 * np.sin(s + phase)
    roll = 50 * np.sin(0.9 * s)
    lon = 151.0 + 2e-5 * s * s
    alt = 100.0 + 3.3 * s - 0.1 * s * s
    if VARIANT == 'seam':
        # roll swings across +-180 deg (and depends on the phase, so that two tables differ across the seam), the
        # longitude stays within 60 m of the 180th meridian, the flight level is 9 km
        roll = (176.0 + 9.0 * np.sin(0.9 * s + 3.0 * phase) + 180.0) % 360.0 - 180.0
        lon = 179.9993 + 2e-6 * s * s
        alt = alt + 9000.0
    tab = pd.DataFrame({
        'lat': -33.0 + 1e-4 * s + 1e-5 * np.sin(s + phase), 'lon': lon,
        'alt': alt,
        'VN': 10 * np.sin(0.5 * s + phase), 'VE': -5 + 0.7 * s, 'VD': 0.1 * np.cos(s),
        'roll': roll, 'pitch': -85.0 + 28.0 * s + 0.3 * np.sin(s),
        'heading': (head + 180.0) % 360.0 - 180.0}, index=pd.Index(t, name='time'))
    tab['pitch'] = np.clip(tab['pitch'], -85.0, 85.0)
    return tab[COLS]


# ------------------------------------------------------------------------- reference algebra
def ref_resample(state, times):
    times = np.sort(np.asarray(times, dtype=float))
    idx = np.asarray(state.index, dtype=float)
    times = times[(times >= idx[0]) & (times <= idx[-1])]
    out = {}
    cols = list(state.columns)
    has_rph = all(c in cols for c in RPH)
    for c in cols:
        if has_rph and c in RPH:
            continue
        out[c] = np.interp(times, idx, state[c].values.astype(float))
    if has_rph:
        r = np.zeros((len(times), 3))
        a = state[RPH].values.astype(float) * D2R
        for k, tt in enumerate(times):
            j = int(np.searchsorted(idx, tt, side='right')) - 1
            j = min(max(j, 0), len(idx) - 2)
            al = (tt - idx[j]) / (idx[j + 1] - idx[j])
            c0, c1 = rot.c_nb(*a[j]), rot.c_nb(*a[j + 1])
            r[k] = rot.rph_from_c(rot.slerp_c(c0, c1, al)) / D2R
        for i, c in enumerate(RPH):
            out[c] = r[:, i]
    return pd.DataFrame(out, index=times)[cols]


def wrap(a):
    r = (np.asarray(a, dtype=float) + 180.0) % 360.0 - 180.0
    r = np.where(r == -180.0, 180.0, r)
    return r


def ref_difference(first, second):
    """first - second on the stamps of the sparser operand inside the span of the other."""
    m1, m2 = np.median(np.diff(first.index)), np.median(np.diff(second.index))
    sign = 1.0
    if m1 < m2:
        first, second, sign = second, first, -1.0
    idx = np.asarray(first.index, dtype=float)
    sidx = np.asarray(second.index, dtype=float)
    keep = (idx >= sidx[0]) & (idx <= sidx[-1])
    cols = [c for c in first.columns if c in second.columns]
    f = first.loc[idx[keep], cols]
    s = ref_resample(second[cols], idx[keep])
    d = f.values.astype(float) - s.values.astype(float)
    d = pd.DataFrame(d, index=f.index, columns=cols)
    if all(c in cols for c in LLA):
        mlat = 0.5 * (f['lat'].values + s['lat'].values) * D2R
        malt = 0.5 * (f['alt'].values + s['alt'].values)
        rn, re = geo.radii(mlat, malt)
        d['lat'] = d['lat'].values * D2R * rn
        d['lon'] = d['lon'].values * D2R * re * np.cos(mlat)
        d['alt'] = -d['alt'].values
        d = d.rename(columns={'lat': 'north', 'lon': 'east', 'alt': 'down'})
    if all(c in cols for c in RPH):
        for c in RPH:
            d[c] = wrap(d[c].values)
    return sign * d


def col_tol(c):
    return {'north': 1e-8, 'east': 1e-8, 'down': 1e-11, 'lat': 1e-13, 'lon': 1e-13, 'alt': 1e-11,
            'roll': 1e-9, 'pitch': 1e-9, 'heading': 1e-9}.get(c, 1e-12)


def compare_tables(got, ref, what, v):
    if list(got.columns) != list(ref.columns):
        v('c18-columns', '%s: columns %s, reference %s' % (what, list(got.columns), list(ref.columns)))
        return
    gi, ri = np.asarray(got.index, dtype=float), np.asarray(ref.index, dtype=float)
    if len(gi) != len(ri) or (gi != ri).any():
        v('c18-index', '%s: index %s, reference %s' % (what, gi.tolist(), ri.tolist()))
        return
    for c in got.columns:
        d = np.abs(got[c].values.astype(float) - ref[c].values.astype(float))
        if c in RPH:
            d = np.minimum(d, np.abs(d - 360.0))
        if len(d) and d.max() > col_tol(c):
            v('c18-value:' + ('attitude' if c in RPH else 'linear'),
              '%s: column %s differs from the reference table algebra by %.3e' % (what, c, d.max()))


def check_range(df, what, v):
    for c in RPH:
        if c in df.columns and len(df):
            a = df[c].values
            if (a <= -180.0).any() or (a > 180.0).any():
                v('c18-angle-range', '%s: %s outside (-180, 180]: %s' % (what, c, a[(a <= -180) | (a > 180)][:3]))


def self_zero(d, what, v, stats):
    """difference against itself or a sub-sampling: exactly zero (attitude: known finding)."""
    if not len(d):
        return
    for c in d.columns:
        a = np.abs(d[c].values.astype(float))
        if c in RPH:
            if a.max() > 1e-10:
                v('c18-self-difference-nonzero:attitude', '%s: %s is %.3e deg, not zero' % (what, c, a.max()))
            elif a.max() > 0:
                stats['max_self_attitude_residual'] = max(stats.get('max_self_attitude_residual', 0.0), a.max())
                v('c18-self-difference-attitude-roundoff',
                  '%s: attitude column %s is %.2e deg (<= 1e-10) instead of exactly zero' % (what, c, a.max()))
        elif a.max() != 0.0:
            v('c18-self-difference-nonzero:linear', '%s: %s is %.3e, not exactly zero' % (what, c, a.max()))


def antisymmetry(d1, d2, densities_differ, what, v):
    """d(a,b) = -d(b,a).  When the sampling densities differ both orders interpolate the same
    operand and the library only flips the sign: the identity must hold bit for bit.  With equal
    densities the two orders interpolate different operands, so only round-off agreement can be
    demanded (the property states antisymmetry, not a particular rounding)."""
    if densities_differ:
        if not (d1.values == -d2.values).all():
            v('c18-antisymmetry', '%s: d(a,b) != -d(b,a) bitwise (max |sum| %.3e)'
              % (what, np.abs(d1.values + d2.values).max()))
    else:
        for c in d1.columns:
            e = np.abs(d1[c].values.astype(float) + d2[c].values.astype(float))
            if c in RPH:
                e = np.minimum(e, np.abs(e - 360.0))
            if e.max() > col_tol(c):
                v('c18-antisymmetry', '%s: d(a,b) + d(b,a) = %.3e in column %s' % (what, e.max(), c))


def gen_cases(tier, seed):
    ph = 0.37 * (seed % 8)
    cases = []
    subsets = [m for m in range(1 << 12) if bin(m).count('1') >= 2]
    for a in range(0, len(subsets), 128):
        cases.append(dict(part='subsample', masks=subsets[a:a + 128], phase=ph))
    for kind in ('jittered', 'shift_tiny', 'shift_quarter', 'shift_half', 'dense2', 'dense3', 'overlap_left', 'overlap_right', 'inside',
                 'disjoint', 'touching'):
        cases.append(dict(part='pair', kind=kind, phase=ph))
    cases.append(dict(part='series', phase=ph))
    cases.append(dict(part='resample', phase=ph))
    cases.append(dict(part='perturb', phase=ph))
    # the same algebra on the 'seam' table (roll across +-180 deg, longitude next to the 180th meridian, 9 km)
    for a in range(0, len(subsets), 512):
        cases.append(dict(part='subsample', masks=subsets[a:a + 512:4], phase=ph, variant='seam'))
    for kind in ('jittered', 'shift_quarter', 'dense2', 'dense3', 'overlap_left', 'inside'):
        cases.append(dict(part='pair', kind=kind, phase=ph, variant='seam'))
    for part in ('series', 'resample', 'perturb'):
        cases.append(dict(part=part, phase=ph, variant='seam'))
    for k in range(-6, 7):
        cases.append(dict(part='angles', k=k))
    cases.append(dict(part='angles', k=2000000))
    cases.append(dict(part='angles', k=-2000000))
    return cases


def run_subsample(case, v, stats):
    from pyins import transform
    base = base_table(case['phase'])
    n = 0
    for m in case['masks']:
        rows = [i for i in range(12) if (m >> i) & 1]
        sub = base.iloc[rows]
        snap_b, snap_s = base.values.copy(), sub.values.copy()
        d1 = transform.compute_state_difference(base, sub)
        d2 = transform.compute_state_difference(sub, base)
        n += 2
        if (base.values != snap_b).any() or (sub.values != snap_s).any():
            v('c18-arg-mutated', 'compute_state_difference modified an operand')
        what = 'base vs rows %s' % rows
        # index: stamps of the sparser operand inside the span of the other
        m_b, m_s = np.median(np.diff(base.index)), np.median(np.diff(sub.index))
        exp_idx = np.asarray(sub.index, dtype=float)
        for d, nm in ((d1, 'd(base,sub)'), (d2, 'd(sub,base)')):
            if m_s < m_b:
                # the sub-sampling can have the smaller median gap (clustered rows): then base is the
                # 'sparser' operand and the index is base's stamps inside sub's span
                exp = np.asarray(base.index, dtype=float)
                exp = exp[(exp >= sub.index[0]) & (exp <= sub.index[-1])]
            elif m_s == m_b and nm == 'd(base,sub)':
                exp = np.asarray(base.index, dtype=float)
                exp = exp[(exp >= sub.index[0]) & (exp <= sub.index[-1])]
            else:
                exp = exp_idx
            gi = np.asarray(d.index, dtype=float)
            if len(gi) != len(exp) or (gi != exp).any():
                v('c18-index', '%s %s: index %s, expected %s' % (what, nm, gi.tolist(), exp.tolist()))
            if list(d.columns) != ['north', 'east', 'down'] + VEL + RPH:
                v('c18-columns', '%s: columns %s' % (what, list(d.columns)))
        # every stamp of the result is a row of base: the difference must vanish identically
        # unless the result lives on base stamps that are NOT rows of sub (sub denser by median)
        on_sub = m_s > m_b or (m_s == m_b)
        if m_s >= m_b:
            self_zero(d2, what + ' d(sub,base)', v, stats)
            if m_s > m_b:
                self_zero(d1, what + ' d(base,sub)', v, stats)
        check_range(d1, what, v)
        check_range(d2, what, v)
        gi1, gi2 = np.asarray(d1.index, dtype=float), np.asarray(d2.index, dtype=float)
        if len(gi1) == len(gi2) and (gi1 == gi2).all() and len(gi1):
            antisymmetry(d1, d2, m_s != m_b, what, v)
            stats['antisymmetry_pairs'] = stats.get('antisymmetry_pairs', 0) + 1
    return n


def second_operand(kind, base, phase):
    t = np.asarray(base.index, dtype=float)
    if kind == 'jittered':
        # same number of rows, same first and last stamp, interior stamps moved: another sampling of the same span
        tj = t.copy()
        tj[1:-1] += 0.0625 * np.where(np.arange(len(t) - 2) % 2, 1.0, -1.0)
        return analytic_table(tj, phase + 0.05)
    if kind == 'shift_tiny':
        s = base.copy()
        s.index = pd.Index(t + 2.0 ** -11, name='time')      # half a millisecond: a different sampling of time
        return s
    if kind == 'shift_quarter':
        s = base.copy()
        s.index = pd.Index(t + 0.0625, name='time')
        return s
    if kind == 'shift_half':
        s = base.copy()
        s.index = pd.Index(t + 0.125, name='time')
        return s
    if kind == 'dense2':
        return analytic_table(np.arange(100.0, 106.0001, 0.25), phase + 0.1)
    if kind == 'dense3':
        return analytic_table(np.arange(99.5, 106.6, 0.125), phase + 0.2)
    if kind == 'overlap_left':
        return analytic_table(np.arange(97.0, 102.6, 0.5), phase + 0.1)
    if kind == 'overlap_right':
        return analytic_table(np.arange(103.25, 109.0, 0.75), phase + 0.1)
    if kind == 'inside':
        return analytic_table(np.arange(101.0, 104.1, 1.0), phase + 0.1)
    if kind == 'disjoint':
        return analytic_table(np.arange(110.0, 115.0, 0.5), phase)
    if kind == 'touching':
        return analytic_table(np.arange(106.0, 110.0, 0.5), phase)
    raise ValueError(kind)


def run_pair(case, v, stats):
    from pyins import transform
    base = base_table(case['phase'])
    sec = second_operand(case['kind'], base, case['phase'])
    n = 0
    groups = [LLA, VEL, RPH]
    for r in range(1, 4):
        for combo in itertools.combinations(range(3), r):
            cols = [c for g in combo for c in groups[g]]
            for extra in (False, True):
                a = base[cols].copy()
                b = sec[cols].copy()
                if extra:
                    a['temperature'] = 20.0 + np.arange(len(a))
                    b['temperature'] = 25.0 - 0.5 * np.arange(len(b))
                    b['only_in_second'] = 1.0
                for first, second, nm in ((a, b, 'd(base,%s)' % case['kind']), (b, a, 'd(%s,base)' % case['kind'])):
                    n += 1
                    what = '%s cols=%s' % (nm, '+'.join(cols[::3]) + ('+extra' if extra else ''))
                    try:
                        got = transform.compute_state_difference(first, second)
                    except Exception as e:  # noqa
                        if case['kind'] == 'disjoint':
                            stats['disjoint_raises'] = stats.get('disjoint_raises', 0) + 1
                            continue
                        raise
                    ref = ref_difference(first, second)
                    compare_tables(got, ref, what, v)
                    check_range(got, what, v)
    # antisymmetry whenever the two orders give the same index
    d1 = transform.compute_state_difference(base, sec) if case['kind'] != 'disjoint' else None
    if d1 is not None:
        d2 = transform.compute_state_difference(sec, base)
        g1, g2 = np.asarray(d1.index, dtype=float), np.asarray(d2.index, dtype=float)
        if len(g1) == len(g2) and (g1 == g2).all() and len(g1):
            stats['antisymmetry_pairs'] = stats.get('antisymmetry_pairs', 0) + 1
            antisymmetry(d1, d2, np.median(np.diff(base.index)) != np.median(np.diff(sec.index)),
                         case['kind'], v)
    return n


def run_series(case, v, stats):
    from pyins import transform
    base = base_table(case['phase'])
    n = 0
    for i, j in itertools.product(range(12), range(12)):
        a, b = base.iloc[i], base.iloc[j]
        d = transform.compute_state_difference(a, b)
        d2 = transform.compute_state_difference(b, a)
        n += 2
        if list(d.index) != ['north', 'east', 'down'] + VEL + RPH:
            v('c18-columns', 'Series difference index %s' % list(d.index))
            continue
        mlat, malt = 0.5 * (a.lat + b.lat) * D2R, 0.5 * (a.alt + b.alt)
        rn, re = geo.radii(mlat, malt)
        exp = np.hstack([(a.lat - b.lat) * D2R * rn, (a.lon - b.lon) * D2R * re * np.cos(mlat), -(a.alt - b.alt),
                         a[VEL].values - b[VEL].values, wrap(a[RPH].values.astype(float) - b[RPH].values.astype(float))])
        e = np.abs(d.values.astype(float) - exp)
        e[6:] = np.minimum(e[6:], np.abs(e[6:] - 360))
        if (e > np.array([1e-8, 1e-8, 1e-11, 1e-12, 1e-12, 1e-12, 1e-11, 1e-11, 1e-11])).any():
            v('c18-series-value', 'Series difference rows %d,%d: %s vs %s' % (i, j, d.values.tolist(), exp.tolist()))
        # the two orders wrap a - b and b - a separately (x % 360 is not an odd function in floating
        # point), so agreement is demanded to round-off; +-180 maps to +180 in both orders
        asym = np.abs(d.values.astype(float) + d2.values.astype(float))
        asym[6:] = np.minimum(asym[6:], np.abs(asym[6:] - 360.0))
        if (asym > 1e-11).any():
            v('c18-antisymmetry', 'Series rows %d,%d: d(a,b) + d(b,a) = %s' % (i, j, asym.tolist()))
        a_ = d[RPH].values.astype(float)
        if (a_ <= -180).any() or (a_ > 180).any():
            v('c18-angle-range', 'Series difference angle outside (-180,180]: %s' % a_.tolist())
        if i == j and (d.values != 0).any():
            v('c18-self-difference-nonzero:linear', 'Series against itself is not exactly zero')
    try:
        transform.compute_state_difference(base, base.iloc[0])
        v('c18-mixed-forms-accepted', 'DataFrame vs Series accepted')
    except ValueError:
        pass
    return n


def run_resample(case, v, stats):
    from pyins import transform
    base = base_table(case['phase'])
    t = np.asarray(base.index, dtype=float)
    n = 0
    queries = {
        'knots': t, 'knots_reversed': t[::-1], 'mid': 0.5 * (t[:-1] + t[1:]),
        'outside_mixed': np.array([90.0, 99.999, 100.0, 100.3, 103.7, 106.0, 106.001, 120.0]),
        'dense': np.arange(99.0, 107.0, 0.0625), 'single': np.array([102.125]), 'none_inside': np.array([1.0, 200.0]),
        # as many stamps as the table has rows, same first and last stamp, different interior
        'same_count_same_ends': np.linspace(t[0], t[-1], len(t)),
        # a microsecond / half a millisecond beside the original stamps: still interpolated, not snapped
        'near_knots': np.concatenate([t[1:-1] - 2.0 ** -20, t[1:-1] + 2.0 ** -20, t[1:-1] - 2.0 ** -11,
                                      t[:-1] + 2.0 ** -11]),
    }
    colsets = [COLS, COLS[::-1], LLA + VEL, RPH, ['alt', 'heading', 'roll', 'VN', 'pitch'], ['VE']]
    # the same table on a large time base (seconds of week): relative tolerances on time would snap here
    big = base.copy()
    big.index = pd.Index(t - 100.0 + 345600.0, name='time')
    for qn, q in (('big_near_knots', queries['near_knots'] - 100.0 + 345600.0), ('big_mid', queries['mid'] - 100.0 + 345600.0)):
        got = transform.resample_state(big, q)
        n += 1
        compare_tables(got, ref_resample(big, q), 'resample %s' % qn, v)
    for qn, q in queries.items():
        for cols in colsets:
            st = base[cols]
            snap = st.values.copy()
            qs = q.copy()
            got = transform.resample_state(st, q)
            n += 1
            if (st.values != snap).any() or (q != qs).any():
                v('c18-arg-mutated', 'resample_state modified an argument')
            ref = ref_resample(st, q)
            compare_tables(got, ref, 'resample %s cols=%s' % (qn, cols), v)
            if qn.startswith('knots') and len(got) == len(base):
                for c in cols:
                    a = np.abs(got[c].values.astype(float) - base[c].values.astype(float))
                    full_rph = all(x in cols for x in RPH)
                    if c in RPH and full_rph:
                        a = np.minimum(a, abs(a - 360))
                        if a.max() > 1e-10:
                            v('c18-resample-knots:attitude', 'resample at original stamps changes %s by %.2e' % (c, a.max()))
                        elif a.max() > 0:
                            v('c18-resample-knots-attitude-roundoff', 'resample at original stamps changes '
                              'attitude column %s by %.2e deg (<= 1e-10)' % (c, a.max()))
                    elif a.max() != 0:
                        v('c18-resample-knots:linear', 'resample at original stamps changes %s by %.2e' % (c, a.max()))
    return n


def run_perturb(case, v, stats):
    from pyins import transform, sim
    base = base_table(case['phase'])
    ERR = ['north', 'east', 'down'] + VEL + RPH
    dirs = [np.eye(9)[k] for k in range(9)] + [np.array([1, -1, 0.5, 0.7, -0.3, 0.2, 0.5, -1, 0.8]),
                                              np.array([-0.3, 0.8, -1, -1, 0.6, 0.4, -0.9, 0.2, 1.0])]
    unit = np.array([100.0, 100.0, 100.0, 1.0, 1.0, 1.0, 1.0, 1.0, 1.0])
    n = 0
    for i in range(12):
        pva = base.iloc[i]
        for d in dirs:
            for sgn in (1.0, -1.0):
                res = []
                for eps in (1.0, 0.1, 0.01):
                    e = pd.Series(sgn * eps * d * unit, index=ERR)
                    snap = pva.values.copy()
                    pe = sim.perturb_pva(pva, e)
                    n += 1
                    if (pva.values != snap).any():
                        v('c18-arg-mutated', 'perturb_pva modified its argument')
                    back = transform.compute_state_difference(pe, pva)
                    res.append(np.abs((back.values.astype(float) - e.values) / unit).max())
                    # the reverse difference recovers -e
                    back2 = transform.compute_state_difference(pva, pe)
                    if np.abs((back2.values.astype(float) + e.values) / unit).max() > 1e-4 * eps + 1e-12:
                        v('c18-perturb-recover-sign', 'difference(pva, perturbed) does not recover -e')
                if res[-1] > 1e-2 * 0.01 + 1e-12:
                    v('c18-perturb-recover', 'difference(perturb_pva(pva, e), pva) differs from e by %.3e at the '
                      'smallest magnitude (row %d, direction %s)' % (res[-1], i, d.tolist()))
                for a, b in zip(res[:-1], res[1:]):
                    if b > 1e-9 and a / b < 10 ** 1.7:
                        v('c18-perturb-order', 'perturb/difference residual is not second order: %s' % res)
                        break
    return n


def run_angles(case, v, stats):
    from pyins import util
    k = case['k']
    deltas = [0.0, 90.0, -90.0, 179.999, -179.999, 1e-9, -1e-9, 33.3]
    vals = []
    for d in deltas:
        a = k * 180.0 + d
        vals += [a, np.nextafter(a, np.inf), np.nextafter(a, -np.inf)]
    vals = np.array(sorted(set(vals)))
    n = 0

    def ok(a, r, form):
        if not (-180.0 < r <= 180.0):
            v('c18-to180-range', 'to_180_range(%r) = %r outside (-180, 180] (%s form)' % (a, r, form))
        dd = (r - a) / 360.0
        if abs(dd - round(dd)) > 4 * EPS * max(1.0, abs(a) / 360.0):
            v('c18-to180-congruence', 'to_180_range(%r) = %r is not congruent modulo 360 (%s form)' % (a, r, form))

    for a in vals:
        r = util.to_180_range(a)
        n += 1
        if np.ndim(r) != 0:
            v('c18-to180-forms', 'scalar input gives a non-scalar result')
            continue
        ok(a, float(r), 'scalar')
    arr = vals.copy()
    for form, arg in (('ndarray', arr), ('list', list(arr)), ('Series', pd.Series(arr, index=np.arange(len(arr)) + 5.0)),
                      ('DataFrame', pd.DataFrame({'a': arr, 'b': arr[::-1]}))):
        snap = np.array(arr)
        r = util.to_180_range(arg)
        n += len(arr)
        if (np.asarray(arr) != snap).any() or (form == 'Series' and (arg.values != snap).any()):
            v('c18-arg-mutated', 'to_180_range modified its %s argument' % form)
        rv = np.asarray(r['a'] if form == 'DataFrame' else r, dtype=float)
        if rv.shape != arr.shape:
            v('c18-to180-forms', '%s form returns shape %s' % (form, rv.shape))
            continue
        for a, x in zip(arr, rv):
            ok(a, float(x), form)
        single = np.array([float(util.to_180_range(a)) for a in arr])
        if (single != rv).any():
            v('c18-to180-forms', '%s form differs from the scalar form' % form)
    return n


def run_case(case):
    viol = []
    stats = {}

    def v(sig, msg):
        if len(viol) < 60:
            viol.append(dict(sig=sig, msg=msg))

    global VARIANT
    VARIANT = case.get('variant', 'plain')
    n = {'subsample': run_subsample, 'pair': run_pair, 'series': run_series, 'resample': run_resample,
         'perturb': run_perturb, 'angles': run_angles}[case['part']](case, v, stats)
    first = {}
    for x in viol:
        first.setdefault(x['sig'], x)
    stats['evaluations'] = n
    key = repr(sorted((k, str(val)) for k, val in case.items()))
    return dict(viol=list(first.values()), key=key, nontrivial=True, stats=stats, points=n)


def finalize(cases, results, tier):
    pts = sum(r.get('points', 0) for r in results)
    return dict(evaluations=pts, distinct_nontrivial=pts)

"""C17 - attitude representations and rotation primitives are consistent.

Engine E3: full Euler-angle lattice and rotation-vector lattice (log grid of norms incl.
both sides of the small-angle branch x directions) evaluated on the real functions and
compared with an independent rotation algebra (mc/truth/rot.py: written-out Euler matrix,
extended-precision Rodrigues and Taylor exponential maps).
"""
import numpy as np

from mc.truth import rot

ID = 'C17'
LEVEL = 'exploration'
CASE_TIMEOUT = 300
BATCH = 4
D2R = np.pi / 180
EPS = np.finfo(float).eps
RULE = ('euler cases: one pitch value each, full product of roll x heading lattices (single and stacked '
        'calls); rotvec cases: one direction each, all norms of the log grid 1e-12..pi plus the branch '
        'threshold sqrt(1e-6)(1 +- k eps) and pi. Non-trivial = non-zero angles / norms; distinct = distinct '
        '(roll,pitch,heading) triples and rotation vectors.')
ASSUMPTIONS = ['reference = written-out R_z(h)R_y(p)R_x(r), longdouble Rodrigues cross-checked with a Taylor '
               'series (self test)', 'lattice, not the continuum']
ROLLS = [-360.0, -270.0, -180.0, -147.0, -90.0, -45.0, 0.0, 33.0, 45.0, 90.0, 135.0, 180.0, 270.0, 360.0]
PITCHES = [-89.9, -60.0, -30.0, 0.0, 30.0, 60.0, 89.9]
DIRS = {'x': (1, 0, 0), '-x': (-1, 0, 0), 'y': (0, 1, 0), '-y': (0, -1, 0), 'z': (0, 0, 1), '-z': (0, 0, -1),
        'xy': (1, 1, 0), 'yz': (0, 1, -1), 'xz': (-1, 0, 1), 'xyz': (1, 1, 1), 'generic': (0.6, -0.48, 0.64),
        'generic2': (-0.2, 0.9, 0.3)}


def gen_cases(tier, seed):
    off = 0.731 * (seed % 8)
    cases = []
    pitches = list(PITCHES)
    pitches += [-85.0, -45.0, -10.0, -1e-6, 1e-6, 10.0, 45.0, 85.0, 89.99]
    if tier == 'thorough':
        pitches += list(np.arange(-87.5, 90.0, 5.0))
    for p in pitches:
        cases.append(dict(part='euler', pitch=p, offset=0.0))
        cases.append(dict(part='euler', pitch=p, offset=off + 0.5))      # generic (non-special) angles
    per_dec = 16 if tier == 'quick' else 64
    for d in DIRS:
        cases.append(dict(part='rotvec', dir=d, per_decade=per_dec))
    return cases


def ang_diff(a, b):
    return (a - b + 180.0) % 360.0 - 180.0


def run_euler(case):
    from pyins import transform, error_model
    import pandas as pd
    viol = []
    p = case['pitch']
    triples = [(r + case['offset'], p, h + case['offset']) for r in ROLLS for h in ROLLS]
    arr = np.array(triples)
    stacked = transform.mat_from_rph(arr)
    n_eval = 0
    max_mat = max_rt = max_jac = 0.0
    em = error_model.InsErrorModel()
    work = np.zeros(3)          # one caller-owned float array, rewritten in place for every triple
    # consecutive single calls with ONE caller-owned array rewritten in place (nothing else called in between)
    mats_w = []
    for (r, pp, h) in triples:
        work[:] = (r, pp, h)
        mats_w.append(np.array(transform.mat_from_rph(work)))
        if (work != np.array([r, pp, h])).any():
            viol.append(dict(sig='c17-arg-mutated', msg='mat_from_rph modified its argument'))
    for i, (r, pp, h) in enumerate(triples):
        if np.abs(mats_w[i] - stacked[i]).max() > 4 * EPS:
            viol.append(dict(sig='c17-work-array-form', msg='mat_from_rph of a caller-owned array rewritten in place '
                             'between calls differs from the stacked form at %r' % ([r, pp, h],)))
            break
    for i, (r, pp, h) in enumerate(triples):
        n_eval += 1
        ref = rot.c_nb(r * D2R, pp * D2R, h * D2R)
        got = transform.mat_from_rph([r, pp, h])
        e = np.abs(got - ref).max()
        max_mat = max(max_mat, e)
        # deg->rad conversion of angles up to 360 deg costs up to 4 eps * 2 pi in the argument
        if e > 16 * EPS:
            viol.append(dict(sig='c17-mat-from-rph', msg='mat_from_rph(%r) differs from R_z(h)R_y(p)R_x(r) '
                             'by %.2e' % ([r, pp, h], e)))
        if np.abs(stacked[i] - got).max() > 4 * EPS:
            viol.append(dict(sig='c17-stacked-vs-single', msg='stacked and single mat_from_rph differ at %r'
                             % ([r, pp, h],)))
        if np.abs(got @ got.T - np.eye(3)).max() > 8 * EPS or abs(np.linalg.det(got) - 1) > 8 * EPS:
            viol.append(dict(sig='c17-not-rotation', msg='mat_from_rph(%r) is not a proper rotation'
                             % ([r, pp, h],)))
        # physical conventions
        if abs(got[2, 0] + np.sin(pp * D2R)) > 16 * EPS:
            viol.append(dict(sig='c17-convention-pitch', msg='x-axis down component is not -sin(pitch) at %r'
                             % ([r, pp, h],)))
        if abs(got[2, 1] - np.sin(r * D2R) * np.cos(pp * D2R)) > 16 * EPS:
            viol.append(dict(sig='c17-convention-roll', msg='y-axis down component is not sin(roll)cos(pitch)'
                             ' at %r' % ([r, pp, h],)))
        if np.abs(got[:2, 0] - np.cos(pp * D2R) * np.array([np.cos(h * D2R), np.sin(h * D2R)])).max() > 16 * EPS:
            viol.append(dict(sig='c17-convention-heading', msg='x-axis horizontal direction is not '
                             '(cos h, sin h) at %r' % ([r, pp, h],)))
        # round trip
        back = transform.mat_to_rph(got)
        tol = 64 * EPS * (180 / np.pi) / np.cos(pp * D2R)
        d = np.abs(ang_diff(np.array(back), np.array([r, pp, h]))).max()
        max_rt = max(max_rt, d / tol)
        if d > tol:
            viol.append(dict(sig='c17-round-trip', msg='mat_to_rph(mat_from_rph(%r)) = %r (diff %.2e deg)'
                             % ([r, pp, h], list(back), d)))
        if np.abs(back).max() > 180.0 + 1e-9:
            viol.append(dict(sig='c17-range', msg='mat_to_rph returned an angle outside [-180, 180]'))
    # Euler-error matrix through the public transform_to_output (attitude block), on a sub-lattice
    for (r, pp, h) in triples[::7]:
        if abs(pp) > 89.5:
            continue
        pva = pd.Series([10.0, 20.0, 100.0, 1.0, 2.0, 3.0, r, pp, h],
                        index=['lat', 'lon', 'alt', 'VN', 'VE', 'VD', 'roll', 'pitch', 'heading'])
        T = em.transform_to_output(pva)[6:9, 6:9]
        c = rot.c_nb(r * D2R, pp * D2R, h * D2R)

        def f(phi):
            return rot.rph_from_c(rot.expm_rodrigues_ld(-np.asarray(phi)) @ c) / D2R

        J = np.zeros((3, 3))
        for k in range(3):
            ek = np.zeros(3)
            ek[k] = 1.0
            d1 = ang_diff(f(2e-4 * ek), f(-2e-4 * ek)) / 4e-4
            d2 = ang_diff(f(1e-4 * ek), f(-1e-4 * ek)) / 2e-4
            J[:, k] = (4 * d2 - d1) / 3
        tolj = 1e-10 * (180 / np.pi) * (1 + 1 / np.cos(pp * D2R) ** 2)
        e = np.abs(T - J).max()
        max_jac = max(max_jac, e / tolj)
        n_eval += 1
        if e > tolj:
            viol.append(dict(sig='c17-euler-error-matrix', msg='attitude block of transform_to_output at '
                             '%r differs from d(rph)/d(phi) of exp(-[phi x])C by %.2e' % ([r, pp, h], e)))
    return viol, dict(evals=n_eval, max_tight_round_trip=max_rt, max_tight_euler_jacobian=max_jac,
                      max_mat_err_eps=max_mat / EPS), len(triples)


def rotvec_norms(per_dec):
    n = list(10.0 ** (np.arange(-12 * per_dec, int(np.log10(np.pi) * per_dec) + 1) / per_dec))
    thr = np.sqrt(1e-6)
    for k in (0, 1, 2, 8, 64):
        n += [thr * (1 + k * EPS), thr * (1 - k * EPS)]
    n += [np.pi, 3.0, 0.0] + [np.pi * (1 - 10.0 ** -k) for k in range(2, 16)]   # approach to pi
    return sorted(set(n))


def run_rotvec(case):
    from pyins import _numba_integrate as ni
    viol = []
    d = np.array(DIRS[case['dir']], dtype=float)
    d = d / np.linalg.norm(d)
    norms = rotvec_norms(case['per_decade'])
    prev = None
    max_e = 0.0
    out = np.empty((3, 3))
    for n in norms:
        rv = n * d
        try:
            # compiled code leaves no Python frame in the traceback: convert here
            ni.mat_from_rotvec(rv, out)
        except Exception as e:  # noqa
            viol.append(dict(sig='c17-rotvec-exception:%s' % type(e).__name__,
                             msg='mat_from_rotvec(|rv|=%.17g, dir %s) raised %s: %s'
                                 % (n, case['dir'], type(e).__name__, e)))
            continue
        ref = rot.expm_rodrigues_ld(rv)
        e = np.abs(out - ref).max()
        max_e = max(max_e, e / EPS)
        if e > 8 * EPS:
            viol.append(dict(sig='c17-rotvec-expm:%s' % ('taylor' if n * n <= 1e-6 else 'rodrigues'),
                             msg='mat_from_rotvec(|rv|=%.17g, dir %s) differs from the exponential map by '
                                 '%.2e (%.1f eps)' % (n, case['dir'], e, e / EPS)))
        if prev is not None and abs(n - prev[0]) <= 200 * EPS * 1e-3 and n > 0:
            jump = np.abs(out - prev[1]).max()
            if jump > 4 * EPS:
                viol.append(dict(sig='c17-rotvec-branch-jump', msg='jump %.2e across |rv|=%.17g' % (jump, n)))
        prev = (n, out.copy())
    return viol, dict(evals=len(norms), max_rotvec_err_eps=max_e), len(norms)


def run_case(case):
    if case['part'] == 'euler':
        viol, stats, n = run_euler(case)
    else:
        viol, stats, n = run_rotvec(case)
    first = {}
    for v in viol:
        first.setdefault(v['sig'], v)
    stats['points'] = n
    return dict(viol=list(first.values()), key=repr(sorted(case.items())), nontrivial=True, stats=stats,
                points=n)


def finalize(cases, results, tier):
    pts = sum(r.get('points', 0) for r in results)
    return dict(evaluations=pts, distinct_nontrivial=pts,
                axes=dict(roll_heading=ROLLS, pitch=PITCHES, rotvec_dirs=list(DIRS),
                          rotvec_norms='log grid 1e-12..pi + sqrt(1e-6)(1 +- {0,1,2,8,64} eps) + {0, 3, pi}'),
                tier_bound='quick: 16 norms per decade, special + 9 generic pitches; thorough: 64 per decade, pitch every 5 deg in addition')

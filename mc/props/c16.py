"""C16 - Earth model and geodetic transforms are one coherent ellipsoidal geometry.

Engine E3: full lat x lon x alt lattice (poles, equator, +-180, 40 000 km) x call forms,
evaluated on the real functions and compared with an independent WGS-84 geometry and
gravity (mc/truth/geo.py).  First-order statements are decided on a displacement ladder.
"""
import itertools

import numpy as np

from mc.truth import geo

ID = 'C16'
LEVEL = 'exploration'
CASE_TIMEOUT = 300
BATCH = 4
EPS = np.finfo(float).eps
RULE = ('one case per (lat, lon) pair, all altitudes inside; full product of the axis alphabets; scalar, '
        'stacked and list call forms. Non-trivial = off the special points (lat not in {0,+-90}, lon not '
        'in {0,+-180}); distinct = distinct (lat, lon, alt) points.')
ASSUMPTIONS = ['reference = closed-form WGS-84 (mc/truth/geo.py), self-tested (round trip, radii = numerical '
               'derivatives)', 'first-order statements decided on the ladder 1000/100/10 m, away from the '
               'poles (|lat| <= 85) where tan(lat) is bounded', 'lattice, not the continuum']
LATS = [-90.0, -89.999, -60.0, -30.0, -1e-9, 0.0, 1e-9, 30.0, 45.0, 60.0, 89.999, 90.0]
LONS = [-180.0, -179.999, -90.0, 0.0, 45.0, 90.0, 179.999, 180.0]
ALTS_RT = [-10e3, -1e3, 0.0, 100.0, 10e3, 100e3, 1000e3, 40000e3]
ALTS_G = [-1e3, 0.0, 10e3, 100e3]


def gen_cases(tier, seed):
    lats, lons = list(LATS), list(LONS)
    lon_off = 1.37 * (seed % 8)
    lat_off = 0.61 * (seed % 8)
    # generic points moved by the seed phase; special points never move
    lats += [-75.0 + lat_off, -12.0 + lat_off, 15.0 + lat_off, 72.0 + lat_off]
    lons += [-135.0 + lon_off, 12.0 + lon_off, 151.0 + lon_off]
    # a regular grid on top (5 deg x 20 deg; the thorough tier halves both steps)
    k = 1 if tier == 'quick' else 2
    lats += list(np.arange(-87.5, 90.0, 5.0 / k) + lat_off * 0.1)
    lons += list(np.arange(-170.0, 180.0, 20.0 / k) + lon_off * 0.1)
    return [dict(lat=la, lon=lo) for la, lo in itertools.product(sorted(set(lats)), sorted(set(lons)))]


def vee(m):
    return np.array([m[2, 1] - m[1, 2], m[0, 2] - m[2, 0], m[1, 0] - m[0, 1]]) / 2


def run_case(case):
    from pyins import earth, transform, _numba_integrate as ni
    viol = []
    stats = {}

    def v(sig, msg):
        viol.append(dict(sig=sig, msg=msg))

    def tight(name, val):
        stats['max_tight_' + name] = max(stats.get('max_tight_' + name, 0.0), float(val))

    lat_d, lon_d = case['lat'], case['lon']
    lat, lon = lat_d * geo.D2R, lon_d * geo.D2R
    n_pts = 0
    # ------------------------------------------------------------- frame matrix
    c = transform.mat_en_from_ll(lat_d, lon_d)
    cref = geo.c_en(lat, lon)
    e = np.abs(c - cref).max()
    tight('mat_en', e / (16 * EPS))
    if e > 16 * EPS:
        v('c16-mat-en', 'mat_en_from_ll(%r,%r) differs from the closed form by %.2e' % (lat_d, lon_d, e))
    if np.abs(c @ c.T - np.eye(3)).max() > 64 * EPS or abs(np.linalg.det(c) - 1) > 64 * EPS:
        v('c16-mat-en-orthonormal', 'mat_en_from_ll(%r,%r) is not a proper rotation' % (lat_d, lon_d))
    cs = transform.mat_en_from_ll([lat_d, lat_d], [lon_d, lon_d])
    if cs.shape != (2, 3, 3) or np.abs(cs[0] - c).max() > 4 * EPS or np.abs(cs[1] - c).max() > 4 * EPS:
        v('c16-forms', 'stacked mat_en_from_ll differs from the scalar call at (%r,%r)' % (lat_d, lon_d))
    # ------------------------------------------------------------- Earth rate
    rn_ = earth.rate_n(lat_d)
    ref = geo.earth_rate_n(lat)
    if np.abs(rn_ - ref).max() > 4 * EPS * geo.RATE:
        v('c16-rate-n', 'rate_n(%r) = %r, expected %r' % (lat_d, rn_.tolist(), ref.tolist()))
    if np.abs(c @ rn_ - np.array([0, 0, geo.RATE])).max() > 8 * EPS * geo.RATE:
        v('c16-rate-n-frame', 'mat_en @ rate_n is not the Earth axis at lat %r' % lat_d)
    rm = earth.rate_n(-lat_d)
    if rm[0] != rn_[0] or rm[2] != -rn_[2] or rm[1] != 0:
        v('c16-parity', 'rate_n parity in latitude broken at %r' % lat_d)
    rs = earth.rate_n([lat_d, -lat_d])
    if (rs[0] != rn_).any() or (rs[1] != rm).any():
        v('c16-forms', 'stacked rate_n differs from scalar at %r' % lat_d)
    for alt in ALTS_RT:
        n_pts += 1
        lla = np.array([lat_d, lon_d, alt])
        r_ref = geo.lla2ecef(lat, lon, alt)
        rr = np.linalg.norm(r_ref)
        # --------------------------------------------------------- lla -> ecef
        r = transform.lla_to_ecef(lla)
        e = np.linalg.norm(r - r_ref)
        tight('lla_to_ecef', e / (8 * EPS * rr))
        if e > 8 * EPS * rr:
            v('c16-lla-to-ecef', 'lla_to_ecef(%r) differs from the closed form by %.3e m' % (lla.tolist(), e))
        r_list = transform.lla_to_ecef([lat_d, lon_d, alt])
        r_stack = transform.lla_to_ecef(np.array([lla, lla]))
        if (r_list != r).any() or (r_stack[0] != r).any() or (r_stack[1] != r).any():
            v('c16-forms', 'lla_to_ecef list/stacked forms differ from the array form at %r' % lla.tolist())
        # --------------------------------------------------------- round trips
        back = transform.ecef_to_lla(r)
        r2 = geo.lla2ecef(back[0] * geo.D2R, back[1] * geo.D2R, back[2])
        e = np.linalg.norm(r2 - r_ref)
        tight('round_trip', e / 1e-7)
        if not np.isfinite(back).all() or e > 1e-7:
            v('c16-round-trip', 'ecef_to_lla(lla_to_ecef(%r)) = %r: %.3e m away' % (lla.tolist(), back.tolist(), e))
        if abs(lat_d) < 89.99 and (abs(((back[1] - lon_d + 180) % 360) - 180) > 1e-9 or abs(back[0] - lat_d) > 1e-9):
            v('c16-round-trip-angles', 'ecef_to_lla(lla_to_ecef(%r)) = %r' % (lla.tolist(), back.tolist()))
        bs = transform.ecef_to_lla(np.array([r, r]))
        if bs.shape != (2, 3) or np.abs(bs[0] - back).max() > 1e-12 or np.abs(bs[1] - back).max() > 1e-12:
            v('c16-forms', 'stacked ecef_to_lla differs from single at %r' % lla.tolist())
        # ecef -> lla -> ecef from a point that is not on the lattice rays
        q = r_ref + np.array([123.4, -56.7, 89.1])
        bq = transform.ecef_to_lla(q)
        e = np.linalg.norm(transform.lla_to_ecef(bq) - q)
        if e > 1e-7:
            v('c16-round-trip-ecef', 'lla_to_ecef(ecef_to_lla(r)) is %.3e m from r at %r' % (e, lla.tolist()))
        # --------------------------------------------------------- radii
        rn, re, rp = earth.principal_radii(lat_d, alt)
        rn_ref, re_ref = geo.radii(lat, alt)
        # rp uses cos(lat) = sqrt(1 - sin^2): a relative error eps in sin gives eps/|cos| in cos
        tol_rp = 8 * EPS * rr * (1 + 1 / max(abs(np.cos(lat)), 1e-12)) if abs(lat_d) < 90 else 1e-8
        if abs(rn - rn_ref) > 8 * EPS * rr or abs(re - re_ref) > 8 * EPS * rr or \
                abs(rp - re_ref * np.cos(lat)) > tol_rp:
            v('c16-principal-radii', 'principal_radii(%r,%r) = %r, expected %r'
              % (lat_d, alt, (rn, re, rp), (rn_ref, re_ref, re_ref * np.cos(lat))))
        prs = earth.principal_radii(np.array([lat_d, lat_d]), np.array([alt, alt]))
        if any(abs(a[0] - b) > 2 * EPS * rr for a, b in zip(prs, (rn, re, rp))):
            v('c16-forms', 'vectorised principal_radii differs from scalar')
        # --------------------------------------------------------- axes = partial derivatives
        if alt <= 1000e3:
            def ecef(dlat, dlon, dalt):
                return transform.lla_to_ecef([lat_d + dlat, lon_d + dlon, alt + dalt])
            h1, h2 = 2e-3, 1e-3                      # degrees
            dN = (4 * (ecef(h2, 0, 0) - ecef(-h2, 0, 0)) / (2 * h2) - (ecef(h1, 0, 0) - ecef(-h1, 0, 0)) / (2 * h1)) / 3 / geo.D2R
            dE = (4 * (ecef(0, h2, 0) - ecef(0, -h2, 0)) / (2 * h2) - (ecef(0, h1, 0) - ecef(0, -h1, 0)) / (2 * h1)) / 3 / geo.D2R
            dD = -(ecef(0, 0, 50.0) - ecef(0, 0, -50.0)) / 100.0
            tol = 1e-9 * rr + 1e-3
            if abs(lat_d) <= 89.99:
                e = max(np.abs(dN - rn * c[:, 0]).max(), np.abs(dE - rp * c[:, 1]).max())
                tight('axes', e / tol)
                if e > tol:
                    v('c16-axes', 'd r_e/d(lat,lon) at %r is not (R_N+h) N, (R_E+h)cos(lat) E (%.2e m/rad)'
                      % (lla.tolist(), e))
            if np.abs(dD - c[:, 2]).max() > 1e-9:
                v('c16-axes-down', '-d r_e/d alt is not the D axis at %r' % lla.tolist())
    # ------------------------------------------------------------- gravity
    for alt in ALTS_G:
        g = earth.gravity(lat_d, alt)
        gref = geo.grav(lat, alt)
        if abs(g - gref) > 8 * EPS * 10:
            v('c16-gravity', 'gravity(%r,%r)=%r, Somigliana closed form %r' % (lat_d, alt, float(g), gref))
        if earth.gravity(-lat_d, alt) != g:
            v('c16-parity', 'gravity is not even in latitude at %r' % lat_d)
        gn = earth.gravity_n(lat_d, alt)
        if gn.shape != (3,) or gn[0] != 0 or gn[1] != 0 or gn[2] != g:
            v('c16-gravity-n', 'gravity_n(%r,%r)=%r is not (0,0,g)' % (lat_d, alt, gn.tolist()))
        gns = earth.gravity_n(np.array([lat_d, lat_d]), np.array([alt, alt]))
        if gns.shape != (2, 3) or (gns[0] != gn).any():
            v('c16-forms', 'stacked gravity_n differs from scalar')
        try:
            gc = ni.gravity(lat_d, alt)
        except Exception as e:  # noqa  (compiled code leaves no Python frame in the traceback)
            v('c16-gravity-compiled-exception', 'compiled gravity raised %s: %s' % (type(e).__name__, e))
            gc = g
        if abs(gc - g) > 2 * np.spacing(g):
            v('c16-gravity-compiled', 'compiled gravity copy %r differs from earth.gravity %r at (%r,%r)'
              % (gc, float(g), lat_d, alt))
        ge = earth.gravitation_ecef([lat_d, lon_d, alt])
        gref_e = geo.gravitation_e(lat, lon, alt)
        e = np.abs(ge - gref_e).max()
        tight('gravitation', e / (64 * EPS * 10))
        if e > 64 * EPS * 10:
            v('c16-gravitation-ecef', 'gravitation_ecef(%r) differs from C_en g_n + W x (W x r) by %.2e'
              % ([lat_d, lon_d, alt], e))
        ges = earth.gravitation_ecef(np.array([[lat_d, lon_d, alt], [lat_d, lon_d, alt]]))
        if ges.shape != (2, 3) or np.abs(ges[0] - ge).max() > 4 * EPS * 10:
            v('c16-forms', 'stacked gravitation_ecef differs from single')
    # ------------------------------------------------------------- first-order statements
    if abs(lat_d) <= 85.0:
        tl = 1 + abs(np.tan(lat))
        for alt in (0.0, 10e3, 100e3):
            lla = np.array([lat_d, lon_d, alt])
            rn, re, rp = earth.principal_radii(lat_d, alt)
            for dvec in ([1.0, 0, 0], [0, 1.0, 0], [0, 0, 1.0], [0.6, -0.64, 0.48]):
                dvec = np.array(dvec)
                res_p, res_d, res_c = [], [], []
                for s in (1000.0, 100.0, 10.0):
                    d = s * dvec
                    p2 = transform.perturb_lla(lla, d)
                    ned = transform.lla_to_ned(np.array([p2]), lla)[0]
                    res_p.append(np.linalg.norm(ned - d))
                    dd = transform.compute_lla_difference(p2, lla)
                    res_d.append(np.linalg.norm(dd - ned))
                    # curvature matrix: rotation of the NED frame under displacement
                    c2 = transform.mat_en_from_ll(p2[0], p2[1])
                    theta = vee(c.T @ c2)
                    Fm = earth.curvature_matrix(lat_d, alt)
                    res_c.append(np.linalg.norm(theta - Fm @ d))
                # second-order bounds: |d|^2 / R * (1 + tan lat) with a factor 2 margin
                for name, res, fac in (('perturb-vs-ned', res_p, 2.0), ('difference-vs-ned', res_d, 2.0)):
                    for s, r_ in zip((1000.0, 100.0, 10.0), res):
                        bound = fac * s * s / 6.3e6 * tl + 1e-8
                        tight(name, r_ / bound)
                        if r_ > bound:
                            v('c16-first-order:' + name, '%s: residual %.3e m for a %g m displacement %r at '
                              '%r exceeds the second-order bound %.3e' % (name, r_, s, dvec.tolist(),
                                                                          lla.tolist(), bound))
                for s, r_ in zip((1000.0, 100.0, 10.0), res_c):
                    bound = 2.0 * (s / 6.3e6) ** 2 * tl * tl + 1e-14
                    tight('curvature', r_ / bound)
                    if r_ > bound:
                        v('c16-curvature-matrix', 'curvature_matrix @ d differs from the rotation of the NED '
                          'frame by %.3e rad for a %g m displacement %r at %r (bound %.3e)'
                          % (r_, s, dvec.tolist(), lla.tolist(), bound))
    # argument form: integer-typed inputs (whole degrees / metres) give the same values as floats
    if float(lat_d).is_integer() and float(lon_d).is_integer():
        li, lo_i = int(lat_d), int(lon_d)
        pairs = [(transform.lla_to_ecef(np.array([li, lo_i, 100])), transform.lla_to_ecef(np.array([lat_d, lon_d, 100.0]))),
                 (transform.mat_en_from_ll(li, lo_i), transform.mat_en_from_ll(lat_d, lon_d)),
                 (earth.gravity(li, 100), earth.gravity(lat_d, 100.0)), (earth.rate_n(li), earth.rate_n(lat_d)),
                 (np.array(earth.principal_radii(li, 100)), np.array(earth.principal_radii(lat_d, 100.0))),
                 (earth.gravitation_ecef(np.array([li, lo_i, 100])), earth.gravitation_ecef([lat_d, lon_d, 100.0])),
                 (transform.perturb_lla(np.array([li, lo_i, 100]), np.array([10, -20, 5])),
                  transform.perturb_lla([lat_d, lon_d, 100.0], [10.0, -20.0, 5.0])),
                 (transform.compute_lla_difference(np.array([li, lo_i, 100]), np.array([li, lo_i, 90])),
                  transform.compute_lla_difference([lat_d, lon_d, 100.0], [lat_d, lon_d, 90.0]))]
        for k_, (a_, b_) in enumerate(pairs):
            if np.shape(a_) != np.shape(b_) or np.abs(np.asarray(a_, dtype=float) - np.asarray(b_, dtype=float)).max() > 0:
                v('c16-int-dtype-form', 'integer-typed input gives a different value than the same number as float '
                  '(function #%d of the list at (%r, %r))' % (k_, lat_d, lon_d))
    # lla_to_ned: default origin = first row, DataFrame form keeps the time index and names the columns
    if abs(lat_d) <= 85.0:
        import pandas as pd
        pts = np.array([[lat_d, lon_d, 100.0], transform.perturb_lla([lat_d, lon_d, 100.0], [300.0, -200.0, 50.0]),
                        transform.perturb_lla([lat_d, lon_d, 100.0], [-50.0, 700.0, -20.0])])
        ned_default = transform.lla_to_ned(pts)
        ned_explicit = transform.lla_to_ned(pts, pts[0])
        if (ned_default != ned_explicit).any() or np.abs(ned_default[0]).max() != 0.0:
            v('c16-lla-to-ned-default-origin', 'lla_to_ned without origin is not relative to the first row')
        df = pd.DataFrame(pts, index=[5.0, 6.0, 7.5], columns=['lat', 'lon', 'alt'])
        nd = transform.lla_to_ned(df)
        if list(nd.columns) != ['north', 'east', 'down'] or list(nd.index) != [5.0, 6.0, 7.5] or \
                (nd.values != ned_default).any():
            v('c16-forms', 'DataFrame form of lla_to_ned differs from the array form / loses the time index')
        exp = np.array([[0, 0, 0], [300.0, -200.0, 50.0], [-50.0, 700.0, -20.0]])
        if np.abs(ned_default - exp).max() > 2.0 * 760.0 ** 2 / 6.3e6 * (1 + abs(np.tan(lat))) + 1e-6:
            v('c16-first-order:perturb-vs-ned', 'lla_to_ned of perturbed points differs from the perturbations by %.3e m'
              % np.abs(ned_default - exp).max())
    # ------------------------------------------------------------- stacks of exactly one point
    # (a stack of one is still a stack: shape (1, ...), values of the scalar call)
    a1 = 250.0
    one = [('mat_en_from_ll', transform.mat_en_from_ll([lat_d], [lon_d]), transform.mat_en_from_ll(lat_d, lon_d)),
           ('rate_n', earth.rate_n([lat_d]), earth.rate_n(lat_d)),
           ('gravity', earth.gravity([lat_d], [a1]), earth.gravity(lat_d, a1)),
           ('gravity_n', earth.gravity_n([lat_d], [a1]), earth.gravity_n(lat_d, a1)),
           ('curvature_matrix', earth.curvature_matrix([lat_d], [a1]), earth.curvature_matrix(lat_d, a1)),
           ('gravitation_ecef', earth.gravitation_ecef([[lat_d, lon_d, a1]]), earth.gravitation_ecef([lat_d, lon_d, a1])),
           ('lla_to_ecef', transform.lla_to_ecef([[lat_d, lon_d, a1]]), transform.lla_to_ecef([lat_d, lon_d, a1])),
           ('ecef_to_lla', transform.ecef_to_lla(np.array([geo.lla2ecef(lat, lon, a1)])),
            transform.ecef_to_lla(geo.lla2ecef(lat, lon, a1))),
           ('perturb_lla', transform.perturb_lla([[lat_d, lon_d, a1]], [[10.0, -20.0, 5.0]]),
            transform.perturb_lla([lat_d, lon_d, a1], [10.0, -20.0, 5.0])),
           ('compute_lla_difference', transform.compute_lla_difference([[lat_d, lon_d, a1]], [[lat_d, lon_d, a1 - 9.0]]),
            transform.compute_lla_difference([lat_d, lon_d, a1], [lat_d, lon_d, a1 - 9.0]))]
    one += [('principal_radii[%d]' % i_, s_, x_) for i_, (s_, x_) in
            enumerate(zip(earth.principal_radii([lat_d], [a1]), earth.principal_radii(lat_d, a1)))]
    for name_, st_, sc_ in one:
        st_, sc_ = np.asarray(st_, dtype=float), np.asarray(sc_, dtype=float)
        if st_.shape != (1,) + sc_.shape:
            v('c16-forms-one-element-stack', '%s of a one-element stack has shape %r, the scalar call %r'
              % (name_, st_.shape, sc_.shape))
        elif np.abs(st_[0] - sc_).max() > 4 * EPS * (1 + np.abs(sc_).max()):
            v('c16-forms-one-element-stack', '%s of a one-element stack differs from the scalar call at (%r, %r)'
              % (name_, lat_d, lon_d))
    # ------------------------------------------------------------- ECEF points exactly on the coordinate planes
    # lla_to_ecef(lon = 180) leaves y ~ 1e-9 m because sin(pi) != 0 in floating point; a position computed in ECEF
    # can have y == 0 (or -0.0) exactly.  Longitude must come out as 0 / +-180 / +-90, latitude and altitude unchanged.
    if lon_d in (-180.0, -90.0, 0.0, 90.0, 180.0) and abs(lat_d) < 89.99:
        for alt in (0.0, 9000.0):
            r_ref = geo.lla2ecef(lat, lon, alt)
            for zero in (0.0, -0.0):
                r0 = r_ref.copy()
                r0[1 if lon_d in (-180.0, 0.0, 180.0) else 0] = zero
                n_pts += 1
                for form, back in (('single', transform.ecef_to_lla(r0)), ('stacked', transform.ecef_to_lla(np.array([r0, r0]))[1])):
                    dlon = abs(((back[1] - lon_d + 180.0) % 360.0) - 180.0)
                    if not np.isfinite(back).all() or dlon > 1e-9 or abs(back[0] - lat_d) > 1e-9 or abs(back[2] - alt) > 1e-6:
                        v('c16-ecef-on-coordinate-plane', 'ecef_to_lla(%r) [%s] = %r, expected (%r, %r, %r)'
                          % (r0.tolist(), form, back.tolist(), lat_d, lon_d, alt))
    first = {}
    for x in viol:
        first.setdefault(x['sig'], x)
    nontrivial = lat_d not in (0.0, 90.0, -90.0) and lon_d not in (0.0, 180.0, -180.0)
    stats['points'] = n_pts
    return dict(viol=list(first.values()), key=repr((lat_d, lon_d)), nontrivial=nontrivial, stats=stats,
                points=n_pts, nt_points=n_pts if nontrivial else 0)


def finalize(cases, results, tier):
    return dict(evaluations=sum(r.get('points', 0) for r in results),
                distinct_nontrivial=sum(r.get('nt_points', 0) for r in results),
                axes=dict(lat=LATS, lon=LONS, alt_round_trip=ALTS_RT, alt_gravity=ALTS_G,
                          plus='4 generic latitudes and 3 generic longitudes shifted by the seed phase; regular grid 5 x 20 deg (quick) / 2.5 x 10 deg (thorough)'),
                tier_bound='quick: 5 x 20 deg grid; thorough: 2.5 x 10 deg grid (both on top of the special points)')

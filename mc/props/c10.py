"""C10 - feedforward filter terminates and consumes every schedule exactly once.

Engine E2 (mc/schedx.py): every schedule of the stated alphabet is executed on the real
`run_feedforward_filter` under the loop-head monitor; the oracle is declarative (computed
from the schedule alone).
"""
import hashlib

import numpy as np

from mc import schedx

ID = 'C10'
LEVEL = 'model_checking'
CASE_TIMEOUT = 90
BATCH = 24
RULE = ('schedules = IMU pattern {uniform,gap,irregular,decimal} x N x start x every subset '
        'of <= M measurement samples from (4N+3 slots x 3 sensors) + the cluster family '
        '(3-4 samples inside one interval) x time_step {half,equal,1.5x,2*span} x altitude '
        'mode x model variant x defaults form; every schedule is one execution of the real '
        'filter. Non-trivial = the loop makes >= 2 iterations or >= 1 sample lies in '
        '[start,end); distinct = distinct (configuration, loop-head cursor sequence, spy log).')
ASSUMPTIONS = [
    'times are dyadic rationals (exact ordering); the decimal pattern covers 0.1 s rows',
    'at most one sensor object per measurement class (result dict is keyed by class name)',
    'measurement values are plausible but arbitrary; structure, not accuracy, is decided here',
]


def _cfgs(tier):
    for pattern in ('uniform', 'gap', 'irregular'):
        for step in schedx.STEPS:
            for wa in (True, False):
                yield pattern, step, wa


def gen_cases(tier, seed):
    cases = []

    def add(pattern, n, t0, wa, step, samples, models='bias', form='list', with_inc=False, rerun=False):
        cases.append(dict(pattern=pattern, n=n, t0=t0, wa=wa, step=step,
                          samples=[list(s) for s in samples], models=models, form=form,
                          with_inc=with_inc, rerun=rerun))

    m_main = 2
    subsets3 = list(schedx.subsets_upto(3, m_main))
    for pattern, step, wa in _cfgs(tier):
        for s in subsets3:
            if tier == 'quick' and not wa and len(s) == 2 and s[0][1] != s[1][1]:
                continue      # quick: 2D mode runs all singles and the same-sensor pairs (thorough: everything)
            add(pattern, 3, 0.0, wa, step, s)
    # cluster family (several samples inside one interval, every interval)
    clusters = schedx.cluster_family(3)
    for pattern, step, wa in _cfgs(tier):
        if tier == 'quick' and not (wa and step in ('half', 'onehalf')):
            continue
        for s in clusters:
            add(pattern, 3, 0.0, wa, step, s)
    # second run with the same measurement / model objects (objects must not remember a previous run)
    for pattern, step, wa in _cfgs(tier):
        if tier == 'quick' and not (wa and step in ('half', 'onehalf')):
            continue
        for s in subsets3:
            if len(s) == 2 and (tier == 'thorough' or s[0][1] == s[1][1]) or len(s) == 1:
                add(pattern, 3, 0.0, wa, step, s, rerun=True)
    # measurement tables whose rows are not in chronological order (same-sensor pairs and the clusters)
    for pattern, step, wa in _cfgs(tier):
        if tier == 'quick' and not (wa and step in ('equal', 'huge')):
            continue
        for s in subsets3:
            if len(s) == 2 and s[0][1] == s[1][1]:
                add(pattern, 3, 0.0, wa, step, s)
                cases[-1]['unsorted'] = True
    # sensors with a lever arm (the feedback filter then attaches body rates to the predicted state): all singles
    # and the coincident cross-sensor pairs
    for pattern, step, wa in _cfgs(tier):
        if tier == 'quick' and step in ('equal', 'huge') and not wa:
            continue
        for s in subsets3:
            if len(s) == 1 or (len(s) == 2 and s[0][0] == s[1][0] and tier == 'thorough'):
                add(pattern, 3, 0.0, wa, step, s)
                cases[-1]['lever'] = True
    # near-coincident epochs (0.24 microseconds apart), same and different sensors
    twins = schedx.twin_family(3)
    for pattern, step, wa in _cfgs(tier):
        if tier == 'quick' and not (wa and step in ('equal', 'onehalf')):
            continue
        for s in twins:
            add(pattern, 3, 0.0, wa, step, s)
    # stamps that differ from a row time in the last bit only (every configuration: the sets are small)
    for pattern, step, wa in _cfgs(tier):
        for s in schedx.ulp_family(3):
            add(pattern, 3, 0.0, wa, step, s)
    # defaults and model variants on the empty and the single-sample schedules
    singles = list(schedx.subsets_upto(3, 1))
    for pattern, step, wa in _cfgs(tier):
        for form in ('none', 'empty', 'omitted'):
            for models in ('none', 'bias'):
                add(pattern, 3, 0.0, wa, step, [], models=models, form=form)
        for models in ('none', 'walk', 'sm', 'gyro_only', 'accel_only', 'stateless'):
            for s in singles:
                if tier == 'quick' and models != 'sm' and len(s) == 1 and s[0][1] != 'P':
                    continue
                if tier == 'quick' and models in ('gyro_only', 'accel_only', 'stateless') and not (len(s) == 0 or s[0][0] in (1, 5, 6)):
                    continue
                add(pattern, 3, 0.0, wa, step, s, models=models,
                    with_inc=(models == 'walk' and wa))
        # shifted start time (searchsorted on non-zero origin)
        for s in singles:
            add(pattern, 3, 64.0, wa, step, s)
    # decimal regime: 0.1 s rows, time_step 0.05 / 0.1 / 0.25
    dec_sets = [[], [(5, 'P')], [(6, 'P')], [(6, 'P'), (7, 'V')], [(9, 'V'), (10, 'P'), (11, 'B')],
                [(1, 'P'), (21, 'V')], [(2, 'P'), (3, 'P'), (4, 'P')],
                # one ulp before / after the rows 0.2, 0.30000000000000004, 0.4 (ns = 23 slots per block)
                [(9 + 46, 'P')], [(13 + 46, 'V')], [(13 + 69, 'P')], [(17 + 46, 'P'), (13 + 46, 'V')], [(13, 'P'), (13 + 46, 'P')]]
    for step in ('d005', 'd01', 'd025'):
        for wa in (True, False):
            for s in dec_sets:
                add('decimal', 5, 0.0, wa, step, s)
            add('decimal', 5, 0.0, wa, step, [], form='omitted', models='none')
    if tier == 'thorough':
        # M <= 3 for N = 3 (one model variant), M <= 2 for N = 4
        for pattern, step, wa in _cfgs(tier):
            for s in schedx.subsets_upto(3, 3):
                if len(s) == 3:
                    add(pattern, 3, 0.0, wa, step, s)
        for pattern, step, wa in _cfgs(tier):
            for s in schedx.subsets_upto(4, 2):
                add(pattern, 4, 0.0, wa, step, s)
            for s in schedx.cluster_family(4, sizes=(3,)):
                add(pattern, 4, 0.0, wa, step, s)
            # longer tables (N = 6): all singles and all same-sensor pairs
            for s in schedx.subsets_upto(6, 2):
                if len(s) < 2 or s[0][1] == s[1][1]:
                    add(pattern, 6, 0.0, wa, step, s)
    return cases


def check_ff(case, obs):
    """Declarative oracle; returns list of violations."""
    viol = []

    def v(sig, msg):
        viol.append(dict(sig=sig, msg=msg))

    times, slots, by, step = obs['times'], obs['slots'], obs['by'], obs['step']
    t0, tend = times[0], times[-1]
    tol = 4 * np.spacing(tend)
    clustered = _clustered(case, obs)
    tag = 'clustered' if clustered else 'sparse'
    if obs['err'] is not None:
        if obs['err'][0] == 'loop':
            v('ff-nontermination:%s' % _nonterm_class(case, obs),
              'feedforward loop does not terminate: %s; cursor trace %s'
              % (obs['err'][1], obs['states'][-6:]))
        else:
            cls = 'defaults' if not case['samples'] else tag
            v('ff-exception:%s:%s' % (obs['err'][1].split(':')[0], cls), obs['err'][1])
        return viol
    res = obs['res']
    expected_uses = {k: sorted(t for t in by[k] if t0 <= t < tend) for k in by}
    names = {'P': 'Position', 'V': 'NedVelocity', 'B': 'BodyVelocity'}
    tables = ['trajectory', 'trajectory_sd', 'gyro', 'gyro_sd', 'accel', 'accel_sd']
    ref_index = None
    for name in tables:
        df = res[name]
        idx = np.asarray(df.index, dtype=float)
        if not schedx.finite_table(df):
            v('ff-nonfinite:' + name, '%s contains non-finite values' % name)
        if len(idx) == 0 or idx[0] != t0:
            v('ff-index-start', '%s index does not start at the first input time' % name)
            continue
        if not (np.diff(idx) > 0).all():
            v('ff-index-not-increasing:' + tag,
              '%s index is not strictly increasing: %s' % (name, idx.tolist()))
        if not np.isin(idx, times).all():
            v('ff-index-not-subset', '%s index has times that are not input times' % name)
        if ref_index is None:
            ref_index = idx
        elif len(idx) != len(ref_index) or (idx != ref_index).any():
            v('ff-index-mismatch', '%s index differs from the trajectory index' % name)
    if ref_index is not None and (np.diff(ref_index) > 0).all() and np.isin(ref_index, times).all():
        for a, b in zip(ref_index[:-1], ref_index[1:]):
            ia = int(np.searchsorted(times, a))
            gap = times[ia + 1] - a
            if b - a > max(step, gap) + tol:
                v('ff-step-too-long', 'result steps from %r to %r: longer than max(time_step=%r,'
                  ' local gap=%r)' % (a, b, step, gap))
                break
        # the last result time must be within one step of the end (nothing is skipped)
        last = ref_index[-1]
        ia = int(np.searchsorted(times, last))
        if ia + 1 < len(times):
            gap = times[ia + 1] - last
            if tend - last > max(step, gap) + tol:
                v('ff-stops-early', 'last result time %r leaves more than one step to the end %r'
                  % (last, tend))
    # sensor-estimate tables carry the states of the models that were passed (none for the defaults)
    for nm_, mod_ in (('gyro', obs.get('gm')), ('accel', obs.get('am'))):
        want = list(mod_.states) if mod_ is not None else []
        for suffix in ('', '_sd'):
            if list(res[nm_ + suffix].columns) != want:
                v('%s-sensor-table-columns' % 'ff', '%s%s columns %s, model states %s'
                  % (nm_, suffix, list(res[nm_ + suffix].columns), want))
    # spy log: exactly-once, in order, nothing outside the span
    log = obs['log']
    used = [(k, t) for (k, t, ok, nz) in log if ok]
    used_times = [t for _, t in used]
    if any(b < a for a, b in zip(used_times[:-1], used_times[1:])):
        v('ff-use-order', 'samples used out of time order: %s' % used)
    for k in by:
        got = sorted(t for kk, t in used if kk == k)
        exp = expected_uses[k]
        if got != exp:
            missing = [t for t in exp if t not in got]
            extra = [t for t in set(got) if got.count(t) > exp.count(t)]
            if missing:
                v('ff-sample-unused:' + tag, 'sensor %s samples at %s were never used (expected %s,'
                  ' used %s)' % (k, missing, exp, got))
            if extra:
                outside = [t for t in extra if not (t0 <= t < tend)]
                if outside:
                    v('ff-sample-outside-used', 'sensor %s sample outside [start,end) used: %s'
                      % (k, outside))
                else:
                    v('ff-sample-reused:' + tag, 'sensor %s samples used more than once: %s'
                      % (k, extra))
        if case.get('form', 'list') == 'list' and by[k]:
            inn = res['innovations'].get(names[k])
            if inn is None:
                v('ff-innovation-missing', 'no innovation table for %s' % names[k])
            else:
                if len(inn) != len(exp):
                    v('ff-innovation-rows:' + tag, '%s: %d innovation rows for %d in-span '
                      'samples' % (names[k], len(inn), len(exp)))
                if len(inn) and not schedx.finite_table(inn):
                    v('ff-nonfinite:innovations', 'non-finite innovation')
                ii = np.asarray(inn.index, dtype=float)
                if len(ii) and (np.diff(ii) < 0).any():
                    v('ff-innovation-order', 'innovation rows not in time order')
    return viol


def _clustered(case, obs):
    """True when two or more measurement epochs fall into one trajectory interval."""
    times, slots = obs['times'], obs['slots']
    ep = sorted({slots[s] for s, _ in case['samples'] if times[0] <= slots[s] < times[-1]})
    iv = [int(np.searchsorted(times, t, side='right')) for t in ep]
    return len(iv) != len(set(iv))


def _nonterm_class(case, obs):
    return 'step<=gap' if obs['step'] <= np.max(np.diff(obs['times'])) else 'other'


def run_case(case):
    obs = schedx.run_filter('ff', case)
    viol = check_ff(case, obs)
    times = obs['times']
    in_span = sum(1 for s, _ in case['samples'] if times[0] <= obs['slots'][s] < times[-1])
    trace = [list(s) if s is not None else None for s in obs['states']]
    h = hashlib.sha1(repr((case['pattern'], case['n'], case['step'], case['wa'], case['models'],
                           trace, [(k, t, ok) for k, t, ok, _ in obs['log']])).encode())
    return dict(viol=viol, key=h.hexdigest()[:16],
                nontrivial=(len(trace) >= 3 or in_span >= 1),
                stats=dict(loop_iterations=len(trace), spy_calls=len(obs['log']),
                           in_span_samples=in_span,
                           monitor_degraded=int(obs['degraded'])),
                trace=trace, cfg=[case['pattern'], case['n'], case['step']])


def finalize(cases, results, tier):
    nodes, edges, seqs = set(), set(), set()
    for r in results:
        tr = r.get('trace')
        if tr is None:
            continue
        cfg = tuple(r['cfg'])
        seqs.add((cfg, tuple(map(lambda s: tuple(s) if s else None, tr))))
        prev = None
        for s in tr:
            node = (cfg, tuple(s) if s else None)
            nodes.add(node)
            if prev is not None:
                edges.add((prev, node))
            prev = node
    return dict(states=len(nodes), transitions=len(edges),
                traces_validated_against_impl=len(results),
                distinct_cursor_sequences=len(seqs),
                bound='thorough: M<=3 samples (N=3), M<=2 (N=4), singles and same-sensor pairs (N=6), cluster family 3-4; '
                      'quick: M<=2 (N=3; in 2D mode same-sensor pairs only), cluster family on 6 configurations'
                if tier == 'thorough' else 'M<=2 samples (N=3; 2D mode: singles and same-sensor pairs) + cluster family (3-4 in one '
                'interval) + defaults/model variants + decimal regime',
                explanation='states/transitions = nodes/edges of the union loop-head cursor '
                            'graph (configuration, index, measurement_time_index) observed by '
                            'sys.monitoring on the real loop; every trace is an execution of '
                            'the implementation')

"""C15 - coning/sculling increments are high-order accurate body-frame integrals.

Engine E3: full product of signal family x sensor type x stamp pattern; every point is
evaluated on a ladder of interval lengths T by the real compute_increments_from_imu and
compared with the exact rotation vector / start-frame velocity increment (mc/truth/incr.py,
ODE at rtol 1e-13).  Oracle: measured convergence order on the asymptotic rungs.
"""
import itertools

import numpy as np
import pandas as pd

from mc.truth import incr
from mc.truth.kin import Sines

ID = 'C15'
LEVEL = 'exploration'
CASE_TIMEOUT = 600
BATCH = 2
RULE = ('full product of linear signals (a,b,c,d direction/magnitude alphabets) and sinusoidal 3-axis '
        'signals x {rate, increment} x {uniform, alternating 0.7T/1.3T stamps}; each point evaluated on '
        'the T ladder. Non-trivial = coning term non-zero (a not parallel to b) or sinusoidal; distinct = '
        'distinct (signal, type, stamps).')
ASSUMPTIONS = [
    'exact increments from DOP853 (rtol 1e-13) on Ċ=C[w x], v̇=C f; self-tested against closed forms',
    'order measured on the asymptotic rungs (T <= 40 ms, error above 200 x the oracle floor)',
    'for increment-type sensors the interval preceding the first sample is taken equal to the first one',
]
IMU_COLS = ['gyro_x', 'gyro_y', 'gyro_z', 'accel_x', 'accel_y', 'accel_z']
LADDER_Q = [0.04, 0.02, 0.01, 0.005, 0.0025]
LADDER_T = [0.16, 0.08, 0.04, 0.02, 0.01, 0.005, 0.0025, 0.00125]
STAMPS = {'uniform': [1.0, 1.0, 1.0], 'alternating': [0.7, 1.3, 0.7, 1.3]}

A_SET = {'axis': (3.0, 0.0, 0.0), 'face': (2.0, -2.0, 0.0), 'generic': (1.0, -2.0, 0.5)}
B_SET = {'parallel': None, 'axis': (0.0, 12.0, 0.0), 'generic': (6.0, 8.0, -12.0)}
C_SET = {'down': (0.0, 0.0, -29.4), 'generic': (3.0, -20.0, 9.0)}
D_SET = {'zero': (0.0, 0.0, 0.0), 'generic': (40.0, 10.0, -30.0)}
SINUS = {
    's1': ([(0.2, [(2.0, 3.0, 0.1)]), (-0.1, [(1.5, 5.0, 1.0)]), (0.3, [(2.5, 2.0, 2.0)])],
           [(1.0, [(20.0, 4.0, 0.5)]), (-9.0, [(15.0, 3.0, 1.5)]), (5.0, [(25.0, 2.0, 0.3)])]),
    's2': ([(0.0, [(3.0, 2.0, 0.7)]), (0.0, [(3.0, 2.0, 0.7 + np.pi / 2)]), (0.5, [])],
           [(0.0, [(29.0, 2.0, 0.0)]), (0.0, [(10.0, 4.5, 1.0)]), (-9.8, [])]),
    's3': ([(1.0, [(1.0, 4.0, 0.3), (0.5, 5.0, 1.0)]), (-1.0, [(0.8, 3.0, 2.0)]), (0.2, [(2.0, 2.5, 0.0)])],
           [(3.0, [(10.0, 5.0, 0.2)]), (2.0, [(20.0, 2.0, 1.1)]), (-9.8, [(5.0, 3.0, 0.4)])]),
}


def gen_cases(tier, seed):
    ladder = LADDER_T
    cases = []
    lin = list(itertools.product(A_SET, B_SET, C_SET, D_SET))
    # quick: one phase/start offset selected by the seed; thorough: all 8
    for ph in ([seed % 8, (seed + 3) % 8, (seed + 5) % 8] if tier == 'quick' else range(8)):
        for (a, b, c, d), typ, st in itertools.product(lin, ('rate', 'increment'), STAMPS):
            cases.append(dict(kind='linear', a=a, b=b, c=c, d=d, type=typ, stamps=st, ladder=ladder,
                              t0=0.3 + 0.05 * ph))
        for s, typ, st in itertools.product(SINUS, ('rate', 'increment'), STAMPS):
            cases.append(dict(kind='sinus', s=s, type=typ, stamps=st, ladder=ladder, phase=0.41 * ph,
                              t0=0.3))
        for layout, typ, st in itertools.product(('accel_first', 'extra_leading', 'interleaved'), ('rate', 'increment'), STAMPS):
            cases.append(dict(kind='linear', a='generic', b='generic', c='generic', d='generic', type=typ, stamps=st,
                              ladder=ladder, t0=0.3 + 0.05 * ph, layout=layout))
    return cases


def build_signals(case):
    if case['kind'] == 'linear':
        a = np.array(A_SET[case['a']])
        b = B_SET[case['b']]
        b = 4.0 * a if b is None else np.array(b)
        c = np.array(C_SET[case['c']])
        d = np.array(D_SET[case['d']])
        w = incr.Signal([Sines(a[i], b[i]) for i in range(3)])
        f = incr.Signal([Sines(c[i], d[i]) for i in range(3)])
        return w, f
    ws, fs = SINUS[case['s']]
    ph = case.get('phase', 0.0)
    w = incr.Signal([Sines(c0, 0.0, [(am, fr, p + ph) for am, fr, p in terms]) for c0, terms in ws])
    f = incr.Signal([Sines(c0, 0.0, [(am, fr, p + ph) for am, fr, p in terms]) for c0, terms in fs])
    return w, f


def evaluate(w, f, typ, stamps, T, t0, layout='canonical'):
    """Errors of the real increments against the exact ones, max over the intervals."""
    from pyins import strapdown
    t = t0 + np.concatenate([[0.0], np.cumsum(stamps)]) * T
    if typ == 'rate':
        data = np.hstack([w(t), f(t)])
    else:
        tp = np.concatenate([[t[0] - (t[1] - t[0])], t[:-1]])
        data = np.array([np.hstack([w.integral(a, b), f.integral(a, b)]) for a, b in zip(tp, t)])
    imu = pd.DataFrame(data, index=pd.Index(t, name='time'), columns=IMU_COLS)
    # column layouts of the Imu table: the columns are named, their position carries no meaning
    if layout == 'accel_first':
        imu = imu[IMU_COLS[3:] + IMU_COLS[:3]]
    elif layout == 'extra_leading':
        imu.insert(0, 'temperature', 20.0 + np.arange(len(imu)))
    elif layout == 'interleaved':
        imu = imu[['gyro_x', 'accel_x', 'gyro_y', 'accel_y', 'gyro_z', 'accel_z']]
        imu['status'] = 1.0
    before = imu.values.copy()
    inc = strapdown.compute_increments_from_imu(imu, typ)
    struct = []
    if list(inc.columns) != ['dt', 'theta_x', 'theta_y', 'theta_z', 'dv_x', 'dv_y', 'dv_z']:
        struct.append('columns %s' % list(inc.columns))
    if len(inc) != len(t) - 1 or (np.asarray(inc.index, dtype=float) != t[1:]).any():
        struct.append('index is not the sample times after the first')
    elif (inc['dt'].values != np.diff(t)).any():
        struct.append('dt column is not the stamp differences')
    if (imu.values != before).any():
        struct.append('input table modified')
    e = np.zeros(3)
    scale = np.zeros(2)
    for k in range(1, len(t)):
        th, dv = incr.exact_increment(w, f, t[k - 1], t[k])
        a0, c0 = w(t[k - 1]), f(t[k - 1])
        corr = np.cross(a0, np.cross(a0, c0)) * (t[k] - t[k - 1]) ** 3 / 6
        got_th = inc.iloc[k - 1, 1:4].values.astype(float)
        got_dv = inc.iloc[k - 1, 4:7].values.astype(float)
        e = np.maximum(e, [np.abs(got_th - th).max(), np.abs(got_dv - dv).max(),
                           np.abs(got_dv + corr - dv).max()])
        scale = np.maximum(scale, [np.abs(th).max(), np.abs(dv).max()])
    return e, scale, struct


def run_case(case):
    w, f = build_signals(case)
    ladder = case['ladder']
    stamps = STAMPS[case['stamps']]
    errs, floors = [], []
    viol = []
    for T in ladder:
        e, scale, struct = evaluate(w, f, case['type'], stamps, T, case['t0'], case.get('layout', 'canonical'))
        for s in struct:
            viol.append(dict(sig='c15-structure', msg=s))
        errs.append(e)
        # oracle floor: ODE rtol 1e-13 relative to the size of the increment
        floors.append(np.array([1e-13 * scale[0] + 1e-16, 1e-13 * scale[1] + 1e-15,
                                1e-13 * scale[1] + 1e-15]))
    errs, floors = np.array(errs), np.array(floors)
    linear = case['kind'] == 'linear'
    coning_zero = linear and case['b'] == 'parallel'
    if linear:
        need = [4.0, 3.0, 4.0]
    else:
        need = [3.0, 3.0, None]
    names = ['rotation vector', 'velocity increment', 'velocity increment + w x (w x f) T^3/6']
    stats = {}
    for ch in range(3):
        if need[ch] is None:
            continue
        idx = [i for i, T in enumerate(ladder) if T <= 0.04 + 1e-12 and errs[i, ch] > 200 * floors[i, ch]]
        # consecutive asymptotic rungs only
        if len(idx) < 2:
            if not (coning_zero or errs[-1, ch] <= 200 * floors[-1, ch]):
                viol.append(dict(sig='c15-no-asymptotic-rungs', msg='%s: no asymptotic rungs' % names[ch]))
            # exact to the floor on every rung <= 40 ms: fine (e.g. no coning at all)
            continue
        # measured order = slope of log(error) over log(T) on windows of the finest asymptotic
        # rungs.  Two error terms of opposite sign can cancel at one rung and distort the slope
        # of the windows that start or end there, so the best of a few windows decides: a real
        # loss of order shows in every window.
        tail = idx[-4:]
        wins = [(tail[i], tail[j]) for i in range(len(tail)) for j in range(i + 1, len(tail))
                if j - i >= min(2, len(tail) - 1)]
        slopes = [np.log2(errs[i, ch] / errs[j, ch]) / np.log2(ladder[i] / ladder[j]) for i, j in wins]
        slope = max(slopes)
        i0, i1 = tail[0], tail[-1]
        stats['min_order_ch%d' % ch] = float(slope)
        if slope < need[ch] - 0.3:
            viol.append(dict(sig='c15-order:%s:%s' % (names[ch].split()[0] + ('+corr' if ch == 2 else ''),
                                                      case['kind']),
                             msg='%s: measured order %.2f on T=%g..%g is below %.1f-0.3 (errors %s)'
                                 % (names[ch], slope, ladder[i0], ladder[i1], need[ch],
                                    ['%.2e' % x for x in errs[:, ch]])))
    # coarse sanity: at the finest rung the relative error is small in absolute terms
    first = {}
    for v in viol:
        first.setdefault(v['sig'], v)
    key = repr((case['kind'], case.get('a'), case.get('b'), case.get('c'), case.get('d'), case.get('s'),
                case['type'], case['stamps'], case['t0'], case.get('phase'), case.get('layout')))
    stats['ode_solves'] = len(ladder) * len(stamps)
    return dict(viol=list(first.values()), key=key, nontrivial=not coning_zero, stats=stats)

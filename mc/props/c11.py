"""C11 - feedforward filter equals the exact linear-Gaussian estimator of its model.

Engine E3: full product of sensor-model classes x measurement mixes x time steps x altitude
mode x sigma scales (x trajectories) on the real run_feedforward_filter.  Oracle: one-shot
Gauss-Markov estimator (mc/truth/gm.py) of the time-varying linear system assembled ONLY from
public objects (InsErrorModel, EstimationModel, Measurement.compute_matrices) on the grid the
filter reports, with its own mid-point states (own SLERP), its own discretisation
(Gauss-Legendre noise integral, not Van Loan) and its own block layout.
"""
import itertools

import numpy as np
import pandas as pd
from scipy.linalg import expm

from mc.truth import gm, rot

ID = 'C11'
LEVEL = 'exploration'
CASE_TIMEOUT = 900
BATCH = 2
EPS = np.finfo(float).eps
D2R = np.pi / 180
RPH = ['roll', 'pitch', 'heading']
THETA = ['theta_x', 'theta_y', 'theta_z']
DVC = ['dv_x', 'dv_y', 'dv_z']
RULE = ('full product trajectory x gyro model class x accel model class x measurement mix (all 8 subsets of '
        '{Position, NedVelocity, BodyVelocity}; on-grid, off-grid, same-interval and cross-sensor coincident '
        'samples) x time_step {0.2, 1, 5} x altitude mode x sigma scale. Non-trivial = at least one '
        'measurement class; distinct = distinct tuples.')
ASSUMPTIONS = ['the grid and the use-once rule are C10\'s business: the oracle takes the grid from the result and '
               'fails fast if C10\'s structural rules are violated on the case',
               'tolerance 1e-5 of the row scale (cond(C_zz) eps with margin), reported tightness']
MODEL_CLASSES = ['none', 'bias', 'bias_walk', 'noise', 'subset', 'subset2', 'scale_diag', 'scale_full', 'all']
STEPS = [0.2, 1.0, 5.0]
STEP_BELOW_SAMPLING = 0.02      # shorter than the 0.05 s trajectory sampling: the filter advances row by row
SIGMA_SCALES = [1e-2, 1e-1, 1.0, 10.0]
SDS = np.array([5.0, 0.2, 0.1, 0.5])


def make_model(cls, kind):
    from pyins import inertial_sensor as isn
    b, nz, w, s = (1e-4, 1e-5, 1e-6, 1e-3) if kind == 'gyro' else (0.02, 1e-3, 1e-4, 1e-3)
    if cls == 'none':
        return isn.EstimationModel()
    if cls == 'bias':
        return isn.EstimationModel(bias_sd=b)
    if cls == 'bias_walk':
        return isn.EstimationModel(bias_sd=b, bias_walk=w)
    if cls == 'noise':
        return isn.EstimationModel(noise=nz)
    if cls == 'subset':
        return isn.EstimationModel(bias_sd=[b, 0, 2 * b], noise=[nz, nz, 0], bias_walk=[w, 0, 0])
    if cls == 'subset2':
        # enabled axes that are NOT a prefix of x, y, z - for every kind of term, and with unequal values
        return isn.EstimationModel(bias_sd=[0, b, 2 * b], noise=[0, nz, 2 * nz], bias_walk=[0, 0, w],
                                   scale_misal_sd=[[0, 0, 0], [s, 0, s], [0, s, 2 * s]])
    if cls == 'scale_diag':
        return isn.EstimationModel(bias_sd=b, noise=nz, scale_misal_sd=np.diag([s, s, 2 * s]))
    if cls == 'scale_full':
        return isn.EstimationModel(noise=nz, scale_misal_sd=[[s, s, 0], [s, 2 * s, s], [0, s, s]])
    return isn.EstimationModel(bias_sd=b, noise=nz, bias_walk=w, scale_misal_sd=s)


def gen_cases(tier, seed):
    cases = []
    mixes = [m for r in range(4) for m in itertools.combinations('PVB', r)]
    if tier == 'quick':
        pairs = [('bias', 'bias'), ('none', 'none'), ('bias_walk', 'noise'), ('subset', 'all'),
                 ('scale_full', 'bias'), ('all', 'scale_diag'), ('noise', 'bias_walk'), ('scale_diag', 'subset'),
                 ('all', 'all'), ('subset2', 'subset2'), ('subset2', 'bias'), ('noise', 'subset2')]
        for (g, a), mix, step, wa in itertools.product(pairs, mixes, STEPS, (True, False)):
            k = pairs.index((g, a)) + mixes.index(mix) + STEPS.index(step)
            cases.append(dict(traj=(k + seed) % 4, gyro=g, accel=a, mix=''.join(mix), step=step, wa=wa,
                              sigma=SIGMA_SCALES[(k + seed) % 4], lever=bool((k + seed) % 2)))
        # trajectories with recording gaps (non-uniform rows), fixes inside the long intervals
        for (g, a), mix, step, wa in itertools.product(pairs[:3] + pairs[-3:-2], (('P',), ('P', 'V', 'B')), (0.2, 1.0), (True, False)):
            cases.append(dict(traj=(seed + len(cases)) % 4, gyro=g, accel=a, mix=''.join(mix), step=step, wa=wa, sigma=1.0,
                              gapped=True))
        # time_step below the trajectory sampling interval (a few model pairs, two mixes)
        for (g, a), mix, wa in itertools.product(pairs[:4], (('P',), ('P', 'V', 'B')), (True, False)):
            cases.append(dict(traj=seed % 3, gyro=g, accel=a, mix=''.join(mix), step=STEP_BELOW_SAMPLING, wa=wa, sigma=1.0))
    else:
        for (g, a), mix, wa in itertools.product([(x, y) for x in MODEL_CLASSES[::2] for y in MODEL_CLASSES[1::2]],
                                                 mixes, (True, False)):
            cases.append(dict(traj=(seed + 1) % 3, gyro=g, accel=a, mix=''.join(mix), step=STEP_BELOW_SAMPLING, wa=wa,
                              sigma=1.0))
        for (g, a), mix, step, wa in itertools.product([(x, y) for x in MODEL_CLASSES[::2] for y in MODEL_CLASSES[1::2]], mixes,
                                                       STEPS, (True, False)):
            cases.append(dict(traj=(seed + len(cases)) % 4, gyro=g, accel=a, mix=''.join(mix), step=step, wa=wa, sigma=1.0,
                              gapped=True))
        for g, a, mix, step, wa in itertools.product(MODEL_CLASSES, MODEL_CLASSES, mixes, STEPS, (True, False)):
            k = MODEL_CLASSES.index(g) * len(MODEL_CLASSES) + MODEL_CLASSES.index(a) + mixes.index(mix) + STEPS.index(step)
            for sg in (SIGMA_SCALES[k % 4], SIGMA_SCALES[(k + 2) % 4]):
                cases.append(dict(traj=(k + seed) % 4, gyro=g, accel=a, mix=''.join(mix), step=step, wa=wa,
                                  sigma=sg, lever=bool(k % 2)))
    return cases


_DATA = {}


def data(traj_id, wa):
    """Nominal (true) trajectory, computed trajectory (integration of erroneous IMU) and increments."""
    key = (traj_id, wa)
    if key in _DATA:
        return _DATA[key]
    from pyins import sim, strapdown, inertial_sensor as isn
    dt = 0.05
    vz = (0.5, 1.0) if wa else (0.0, 0.0)
    spec = [dict(lla=[50.0, 60.0, 100.0], vm=[10.0, -5.0, vz[0]], va=[3.0, 3.0, vz[1]], period=7.0),
            dict(lla=[-33.0, 151.0, 5000.0], vm=[150.0, 100.0, vz[0]], va=[20.0, 10.0, vz[1]], period=5.0),
            dict(lla=[75.0, -170.0, 0.0], vm=[-30.0, 40.0, 0.0], va=[5.0, 8.0, vz[1]], period=9.0),
            # southbound weave: heading crosses +-180 deg inside covariance steps (plain averaging of Euler angles
            # anywhere in the filter would show here)
            dict(lla=[-20.0, 179.99, 50.0], vm=[-20.0, 0.5, vz[0]], va=[3.0, 6.0, vz[1]], period=4.0)][traj_id]
    traj_true, imu_true = sim.generate_sine_velocity_motion(dt, 8.0, spec['lla'], spec['vm'], spec['va'],
                                                            velocity_change_period=spec['period'])
    rng = np.random.RandomState(7 + traj_id)
    gp = isn.Parameters(bias=[1e-4, -2e-4, 1e-4], transform=np.eye(3) + 1e-3 * rng.randn(3, 3), noise=1e-5, rng=rng)
    ap = isn.Parameters(bias=[0.01, -0.01, 0.02], noise=1e-3, rng=rng)
    imu = isn.apply_imu_parameters(imu_true, 'rate', gp, ap)
    inc = strapdown.compute_increments_from_imu(imu, 'rate')
    err = sim.generate_pva_error(5.0, 0.2, 0.1, 0.5, rng)
    if not wa:
        err['down'] = 0.0
        err['VD'] = 0.0
    init = sim.perturb_pva(traj_true.iloc[0], err)
    traj = strapdown.Integrator(init, wa).integrate(inc)
    _DATA[key] = (traj_true, traj, inc, rng.randn(200, 3))
    return _DATA[key]


def make_measurements(mix, traj_true, noise, lever=False):
    from pyins import measurements, sim, transform
    out = []
    t = np.asarray(traj_true.index, dtype=float)
    if 'P' in mix:
        rows = [0, 7, 30, 31, 77, 120]       # 0: a fix exactly on the first row; 30/31 adjacent rows; 120 late
        df = traj_true.iloc[rows][['lat', 'lon', 'alt']].copy()
        df[['lat', 'lon', 'alt']] = transform.perturb_lla(df.values, 1.0 * noise[:len(rows)])
        df.index = df.index + np.array([0.0, 0.0, 0.0, 0.0, 0.02, 0.0])      # one off-grid stamp
        if lever:
            # antenna 2 m ahead, 1 m to the left, 0.5 m below the IMU: the measured positions are the antenna's
            arm = np.array([2.0, -1.0, 0.5])
            ant = transform.translate_trajectory(traj_true.iloc[rows], arm)
            df[['lat', 'lon', 'alt']] = transform.perturb_lla(ant[['lat', 'lon', 'alt']].values, 1.0 * noise[:len(rows)])
            out.append(measurements.Position(df, 1.0, imu_to_antenna_b=arm))
        else:
            out.append(measurements.Position(df, 1.0))
    if 'V' in mix:
        rows = [7, 50, 77]                   # 7 coincident with Position; 77 in the same interval as P's 77+0.02
        df = traj_true.iloc[rows][['VN', 'VE', 'VD']] + 0.1 * noise[10:10 + len(rows)]
        df.index = df.index + np.array([0.0, 0.0125, 0.03])
        out.append(measurements.NedVelocity(df, 0.1))
    if 'B' in mix:
        rows = [20, 60, 61, 140]
        df = sim.generate_body_velocity_measurements(traj_true.iloc[rows], 0.0, rng=0) + 0.1 * noise[20:20 + len(rows)]
        df.index = df.index + np.array([0.02, 0.0, 0.01, 0.0])
        out.append(measurements.BodyVelocity(df, 0.1))
    return out


def slerp_rph(a, b, alpha):
    c0 = rot.c_nb(*(np.asarray(a, dtype=float) * D2R))
    c1 = rot.c_nb(*(np.asarray(b, dtype=float) * D2R))
    return rot.rph_from_c(rot.slerp_c(c0, c1, alpha)) / D2R


def nlerp_rph(a, b, alpha):
    """Weighted chordal mean of two rotations = normalised linear blend of their (sign-aligned) quaternions."""
    c0 = rot.c_nb(*(np.asarray(a, dtype=float) * D2R))
    c1 = rot.c_nb(*(np.asarray(b, dtype=float) * D2R))
    q0, q1 = rot.quat_from_c(c0), rot.quat_from_c(c1)
    if q0 @ q1 < 0:
        q1 = -q1
    q = (1 - alpha) * q0 + alpha * q1
    q = q / np.linalg.norm(q)
    w, x, y, z = q
    c = np.array([[1 - 2 * (y * y + z * z), 2 * (x * y - w * z), 2 * (x * z + w * y)],
                  [2 * (x * y + w * z), 1 - 2 * (x * x + z * z), 2 * (y * z - w * x)],
                  [2 * (x * z - w * y), 2 * (y * z + w * x), 1 - 2 * (x * x + y * y)]])
    return rot.rph_from_c(c) / D2R


def qmean_rph(a, b, alpha):
    """The weighted chordal (L2) mean proper: the dominant eigenvector of (1-alpha) q0 q0' + alpha q1 q1'.  It lies in the
    span of q0, q1; in that basis the matrix is [[w0, w0 c], [w1 c, w1]], c = q0.q1."""
    c0 = rot.c_nb(*(np.asarray(a, dtype=float) * D2R))
    c1 = rot.c_nb(*(np.asarray(b, dtype=float) * D2R))
    q0, q1 = rot.quat_from_c(c0), rot.quat_from_c(c1)
    if q0 @ q1 < 0:
        q1 = -q1
    cc = float(q0 @ q1)
    w0, w1 = 1 - alpha, alpha
    lam, vec = np.linalg.eig(np.array([[w0, w0 * cc], [w1 * cc, w1]]))
    a_, b_ = np.real(vec[:, int(np.argmax(np.real(lam)))])
    q = a_ * q0 + b_ * q1
    q = q / np.linalg.norm(q)
    if q @ q0 < 0:
        q = -q
    w, x, y, z = q
    c = np.array([[1 - 2 * (y * y + z * z), 2 * (x * y - w * z), 2 * (x * z + w * y)],
                  [2 * (x * y + w * z), 1 - 2 * (x * x + z * z), 2 * (y * z - w * x)],
                  [2 * (x * z - w * y), 2 * (y * z + w * x), 1 - 2 * (x * x + y * y)]])
    return rot.rph_from_c(c) / D2R


INTERPOLANT = 'slerp'


def interp_pva(p, q, alpha):
    s = (1 - alpha) * p + alpha * q
    f = {'slerp': slerp_rph, 'nlerp': nlerp_rph, 'qmean': qmean_rph}[INTERPOLANT]
    s[RPH] = f(p[RPH].values, q[RPH].values, alpha)
    return s


_GLX, _GLW = np.polynomial.legendre.leggauss(16)


def discretise(F, Q, tau):
    Phi = expm(F * tau)
    Qd = np.zeros_like(F)
    for x, w in zip(_GLX, _GLW):
        s = 0.5 * tau * (x + 1)
        E = expm(F * (tau - s))
        Qd += 0.5 * tau * w * E @ Q @ E.T
    return Phi, Qd


def oracle(case, res, traj_true, traj, inc, meas, sds):
    from pyins import error_model
    wa = case['wa']
    em = error_model.InsErrorModel(wa)
    gmod, amod = make_model(case['gyro'], 'gyro'), make_model(case['accel'], 'accel')
    grid = np.asarray(res.trajectory.index, dtype=float)
    times = np.asarray(traj.index, dtype=float)
    ni, ng, na = em.n_states, gmod.n_states, amod.n_states
    n = ni + ng + na
    # own block layout: [ins | gyro | accel]
    P0o = np.diag([sds[0]] * 3 + [sds[1]] * 3 + [sds[2]] * 2 + [sds[3]]) ** 2
    Ti = em.transform_to_internal(traj_true.iloc[0])
    P0 = np.zeros((n, n))
    P0[:ni, :ni] = Ti @ P0o @ Ti.T
    P0[ni:ni + ng, ni:ni + ng] = gmod.P
    P0[ni + ng:, ni + ng:] = amod.P
    Phis, Qds = [], []
    for a, b in zip(grid[:-1], grid[1:]):
        pa = interp_pva(traj_true.loc[a], traj_true.loc[b], 0.5)
        Fi, Bg, Ba = em.system_matrices(pa)
        tau = b - a
        batch = inc[(inc.index > a) & (inc.index <= b)]
        gyr = batch[THETA].sum().values / tau
        acc = batch[DVC].sum().values / tau
        Hg = gmod.output_matrix(gyr) if gmod.scale_misal_modelled else gmod.output_matrix()
        Ha = amod.output_matrix(acc) if amod.scale_misal_modelled else amod.output_matrix()
        F = np.zeros((n, n))
        F[:ni, :ni] = Fi
        F[:ni, ni:ni + ng] = Bg @ Hg
        F[:ni, ni + ng:] = Ba @ Ha
        F[ni:ni + ng, ni:ni + ng] = gmod.F
        F[ni + ng:, ni + ng:] = amod.F
        Q = np.zeros((n, n))
        Gi = np.hstack([Bg @ gmod.J * gmod.v, Ba @ amod.J * amod.v])
        Q[:ni, :ni] = Gi @ Gi.T
        Gg = gmod.G * gmod.q
        Q[ni:ni + ng, ni:ni + ng] = Gg @ Gg.T
        Ga = amod.G * amod.q
        Q[ni + ng:, ni + ng:] = Ga @ Ga.T
        P_, Q_ = discretise(F, Q, tau)
        Phis.append(P_)
        Qds.append(Q_)
    epochs = np.unique(np.hstack([np.asarray(m.data.index, dtype=float) for m in meas])) if meas else np.array([])
    epochs = epochs[(epochs >= times[0]) & (epochs < times[-1])]
    obs, names = [], []
    for me in epochs:
        i = int(np.searchsorted(times, me, side='right')) - 1
        tk = times[i]
        kk = np.nonzero(grid == tk)[0]
        if len(kk) != 1:
            return None, 'measurement epoch %r: its row time %r is not on the result grid' % (me, tk)
        alpha = (me - times[i]) / (times[i + 1] - times[i])
        pv = interp_pva(traj.iloc[i], traj.iloc[i + 1], alpha)
        for m in meas:
            ret = m.compute_matrices(me, pv, em)
            if ret is None:
                continue
            z, H, R = ret
            Hf = np.zeros((len(z), n))
            Hf[:, :ni] = H
            obs.append((int(kk[0]), np.asarray(z, dtype=float), Hf, np.asarray(R, dtype=float)))
            names.append(type(m).__name__)
    xhat, Phat, inn, cond = gm.solve(P0, Phis, Qds, obs)
    To = em.transform_to_output(traj_true.loc[grid])
    err_nav = np.einsum('kij,kj->ki', To, xhat[:, :ni])
    sd_nav = np.sqrt(np.maximum(np.einsum('kij,kjl,kil->ki', To, Phat[:, :ni, :ni], To), 0))
    return dict(err_nav=err_nav, sd_nav=sd_nav, gyro=xhat[:, ni:ni + ng], accel=xhat[:, ni + ng:],
                gyro_sd=np.sqrt(np.maximum(np.einsum('kii->ki', Phat[:, ni:ni + ng, ni:ni + ng]), 0)),
                accel_sd=np.sqrt(np.maximum(np.einsum('kii->ki', Phat[:, ni + ng:, ni + ng:]), 0)),
                inn=inn, names=names, cond=cond, n_obs=len(obs), gmod=gmod, amod=amod), None


def run_case(case):
    from pyins import filters, earth
    viol = []
    stats = {}

    def v(sig, msg):
        viol.append(dict(sig=sig, msg=msg))

    wa = case['wa']
    traj_true, traj, inc, noise = data(case['traj'], wa)
    meas = make_measurements(case['mix'], traj_true, noise, case.get('lever', False))
    if case.get('gapped'):
        # recording gaps: rows 3, 4, 5 of every 8 are missing from both trajectories (intervals of 0.05 and 0.2 s; the
        # increments stay complete).  Fixes stamped on the missing rows now lie strictly inside a long interval.
        keep = [k_ for k_ in range(len(traj_true)) if (k_ % 8) not in (3, 4, 5) or k_ == len(traj_true) - 1]
        traj_true, traj = traj_true.iloc[keep], traj.iloc[keep]
    sds = SDS * case['sigma']
    gmod, amod = make_model(case['gyro'], 'gyro'), make_model(case['accel'], 'accel')
    res = filters.run_feedforward_filter(traj_true, traj, *sds, gyro_model=gmod, accel_model=amod,
                                         measurements=meas, increments=inc, time_step=case['step'],
                                         with_altitude=wa)
    grid = np.asarray(res.trajectory.index, dtype=float)
    if len(grid) < 2 or (np.diff(grid) <= 0).any():
        v('c11-grid', 'result grid is not strictly increasing (C10\'s rule): %s' % grid[:6])
        return dict(viol=viol, key=repr(sorted(case.items())), nontrivial=True, stats=stats)
    global INTERPOLANT
    INTERPOLANT = 'slerp'
    orc, err = oracle(case, res, traj_true, traj, inc, meas, sds)
    # The attitude between two rows (needed at off-grid measurement epochs) can be interpolated along the geodesic
    # (SLERP) or by the chordal mean; both are shortest-arc interpolants and differ at third order in the angle
    # between the rows.  The optimal estimate inherits that ambiguity: it widens the tolerance.
    INTERPOLANT = 'nlerp'
    orc2, _ = oracle(case, res, traj_true, traj, inc, meas, sds)
    INTERPOLANT = 'qmean'
    orc3, _ = oracle(case, res, traj_true, traj, inc, meas, sds)
    INTERPOLANT = 'slerp'
    amb = {}
    if orc is not None and orc2 is not None and orc3 is not None:
        # three shortest-arc interpolants: geodesic, normalised linear blend, weighted chordal mean; on long intervals
        # (recording gaps) they differ more, and the slack grows with their spread accordingly
        for k_ in ('err_nav', 'sd_nav', 'gyro', 'accel', 'gyro_sd', 'accel_sd'):
            amb[k_] = 3.0 * np.maximum(np.abs(orc[k_] - orc2[k_]), np.abs(orc[k_] - orc3[k_]))
        amb['inn'] = 3.0 * max([max(np.abs(a_ - b_).max(), np.abs(a_ - c_).max())
                                for a_, b_, c_ in zip(orc['inn'], orc2['inn'], orc3['inn'])] + [0.0])
    if orc is None:
        v('c11-grid', err)
        return dict(viol=viol, key=repr(sorted(case.items())), nontrivial=True, stats=stats)
    TOL = 1e-5

    def cmp(name, got, ref, scale, slack=0.0):
        got, ref = np.asarray(got, dtype=float), np.asarray(ref, dtype=float)
        if got.shape != ref.shape:
            v('c11-shape:' + name, '%s has shape %s, oracle %s' % (name, got.shape, ref.shape))
            return
        if not got.size:
            return
        e = np.maximum(np.abs(got - ref) - slack, 0.0) / (scale + 1e-300)
        stats['max_tight_' + name] = max(stats.get('max_tight_' + name, 0.0), float(np.nanmax(e) / TOL))
        if np.nanmax(e) > TOL or not np.isfinite(got).all():
            i = np.unravel_index(np.nanargmax(e), e.shape)
            v('c11-%s' % name, '%s differs from the one-shot Gauss-Markov estimator: got %.8g, oracle %.8g at %s '
              '(rel. to scale %.3e; gyro=%s accel=%s mix=%s step=%g wa=%s)'
              % (name, got[i], ref[i], i, e[i], case['gyro'], case['accel'], case['mix'], case['step'], wa))

    # error estimates recovered from the compensated trajectory
    tin = traj.loc[grid]
    tout = res.trajectory
    nom = traj_true.loc[grid]
    rn, _, rp = earth.principal_radii(nom.lat.values, nom.alt.values)
    est = np.column_stack([(tin.lat.values - tout.lat.values) * D2R * rn,
                           (tin.lon.values - tout.lon.values) * D2R * rp,
                           tout.alt.values - tin.alt.values,
                           tin[['VN', 'VE', 'VD']].values - tout[['VN', 'VE', 'VD']].values,
                           tin[RPH].values - tout[RPH].values])
    sd_scale = np.maximum(orc['sd_nav'].max(axis=0, keepdims=True), 1e-300)
    if not wa:
        sd_scale[0, [2, 5]] = 1.0
    # subtracting degrees of latitude/longitude loses ~1e-8 m: allow it in the scale
    cmp('trajectory', est, orc['err_nav'], sd_scale + np.array([[1e-3, 1e-3, 1e-6, 1e-9, 1e-9, 1e-9, 1e-7, 1e-7, 1e-7]]),
        amb['err_nav'])
    cmp('trajectory_sd', res.trajectory_sd.values, orc['sd_nav'], sd_scale, amb['sd_nav'])
    if list(res.gyro.columns) != list(orc['gmod'].states) or list(res.accel.columns) != list(orc['amod'].states):
        v('c11-sensor-columns', 'sensor estimate columns %s / %s' % (list(res.gyro.columns), list(res.accel.columns)))
    else:
        for nm, got, ref, sd_ref, sd_got in (('gyro', res.gyro.values, orc['gyro'], orc['gyro_sd'], res.gyro_sd.values),
                                             ('accel', res.accel.values, orc['accel'], orc['accel_sd'], res.accel_sd.values)):
            if ref.shape[1]:
                sc = np.maximum(sd_ref.max(axis=0, keepdims=True), 1e-300)
                cmp(nm, got, ref, sc, amb[nm])
                cmp(nm + '_sd', sd_got, sd_ref, sc, amb[nm + '_sd'])
    by = {}
    for nmc, w in zip(orc['names'], orc['inn']):
        by.setdefault(nmc, []).append(w)
    for nmc, rows in by.items():
        got = res.innovations[nmc].values
        ref = np.array(rows)
        cmp('innovations', got, ref, np.maximum(np.abs(ref).max(), 1.0), amb['inn'])
    stats['observations'] = orc['n_obs']
    stats['max_cond_Czz'] = float(orc['cond'])
    first = {}
    for x in viol:
        first.setdefault(x['sig'], x)
    return dict(viol=list(first.values()), key=repr(sorted(case.items())), nontrivial=bool(case['mix']),
                stats=stats)


def finalize(cases, results, tier):
    return dict(tier_bound=('quick: 9 of the 64 (gyro, accel) model-class pairs (every class appears on both sides), all 8 '
                            'measurement mixes x 3 steps x 2 modes; trajectory and sigma scale assigned by the tuple index'
                            if tier == 'quick' else
                            'thorough: all 64 model-class pairs x 8 mixes x 3 steps x 2 modes x 2 sigma scales'))

"""C08 - discretised process matrices are the exact transition and noise integral.

Engine E3: full product of structured (F, n, Q, dt) alphabets (incl. the real joint
INS+sensor F/Q assembled from the public model objects) evaluated on the real
kalman.compute_process_matrices, compared with an independent extended-precision
exponential and Gauss-Legendre noise integral (mc/truth/lin.py), plus the composition law
over ALL enumerated partitions of the step (differential oracle).
"""
import itertools

import numpy as np

from mc.truth import lin

ID = 'C08'
LEVEL = 'exploration'
CASE_TIMEOUT = 900
BATCH = 4
EPS = np.finfo(float).eps
RULE = ('full product F kind x n x Q kind x dt; for each point all equal splittings into k=1..8 sub-steps '
        'and all ordered compositions from the part alphabet {1,2,5}/8 dt with <= P parts. Non-trivial = '
        'F non-zero and Q non-zero and dt > 0; distinct = distinct tuples.')
ASSUMPTIONS = ['reference: scaling-and-squaring Taylor exponential in longdouble, composite 10-point '
               'Gauss-Legendre (not Van Loan)', '||F|| dt capped at 64 (cap reported); sharpness follows the measured conditioning kappa',
               'tolerance c eps n kappa (||Qd|| + ||Q|| dt), kappa = measured conditioning: max of max_s ||e^{Fs}|| ||e^{-Fs}|| and that of the Van Loan block matrix (the documented method)']
F_KINDS = ['zero', 'nilpotent', 'stable_diag', 'stable_cascade', 'jordan', 'unstable_diag', 'skew', 'spiral', 'mixed_dense', 'ins15', 'ins21']
NS_THOROUGH = [1, 2, 3, 4, 5, 6, 9, 12, 15, 20, 24]
NS = [1, 2, 3, 9, 15, 24]
Q_KINDS = ['zero', 'diag', 'rank1', 'dense']
DTS = [0.0, 1e-6, 1e-3, 0.01, 0.1, 0.5, 1.0, 3.0, 10.0]
CAP = 64.0


def gen_cases(tier, seed):
    cases = []
    for fk, n, qk, dt in itertools.product(F_KINDS, NS if tier == 'quick' else NS_THOROUGH, Q_KINDS, DTS):
        if fk.startswith('ins'):
            if n != NS[0]:
                continue
            for op in range(3):
                cases.append(dict(F=fk, n=int(fk[3:]), Q=qk if qk != 'dense' else 'model', dt=dt, op=op,
                                  parts=6 if tier == 'quick' else 8))
            continue
        if fk in ('skew', 'spiral') and n == 1:
            continue
        cases.append(dict(F=fk, n=n, Q=qk, dt=dt, op=0, parts=6 if tier == 'quick' else 8))
        if qk != 'zero' and n in (2, 9):
            # tiny noise densities (a (1e-6)^2 gyro noise): small is not zero
            cases.append(dict(F=fk, n=n, Q=qk, dt=dt, op=0, parts=6 if tier == 'quick' else 8, q_scale=1e-12))
        if fk in ('zero', 'nilpotent') and n in (2, 3, 9):
            # argument form: integer-typed F (as the library's own nilpotent test passes it)
            cases.append(dict(F=fk, n=n, Q=qk, dt=dt, op=0, parts=6 if tier == 'quick' else 8, int_F=True))
    return cases


def ins_matrices(n, op):
    """The real joint INS + sensor F and G q^2 G' assembled from the public model objects, exactly as
    the filters do it (15 = bias models on both triads, 21 = + gyro scale/misalignment diag + walk)."""
    import pandas as pd
    from pyins import error_model, inertial_sensor
    pvas = [[-33.0, 151.0, 100.0, 30.0, -40.0, 2.0, 5.0, -10.0, 120.0],
            [60.0, 10.0, 9000.0, -200.0, 150.0, -5.0, -20.0, 8.0, -60.0],
            [0.0, -170.0, 0.0, 0.0, 0.0, 0.0, 0.0, 0.0, 0.0]]
    pva = pd.Series(pvas[op], index=['lat', 'lon', 'alt', 'VN', 'VE', 'VD', 'roll', 'pitch', 'heading'])
    em = error_model.InsErrorModel()
    if n == 15:
        gm = inertial_sensor.EstimationModel(bias_sd=1e-4, noise=1e-5, bias_walk=1e-6)
        am = inertial_sensor.EstimationModel(bias_sd=0.02, noise=1e-3)
    else:
        gm = inertial_sensor.EstimationModel(bias_sd=1e-4, noise=1e-5, bias_walk=[1e-6, 0, 1e-6],
                                             scale_misal_sd=np.diag([1e-3, 1e-3, 1e-3]))
        am = inertial_sensor.EstimationModel(bias_sd=0.02, noise=1e-3, bias_walk=1e-4,
                                             scale_misal_sd=np.diag([1e-3, 1e-3, 1e-3]))
    Fii, Fig, Fia = em.system_matrices(pva)
    gyro = np.array([0.01, -0.02, 0.3])
    accel = np.array([0.5, -0.3, -9.8])
    Hg, Ha = gm.output_matrix(gyro), am.output_matrix(accel)
    ni, ng, na = 9, gm.n_states, am.n_states
    ntot = ni + ng + na
    F = np.zeros((ntot, ntot))
    F[:ni, :ni] = Fii
    F[:ni, ni:ni + ng] = Fig @ Hg
    F[:ni, ni + ng:] = Fia @ Ha
    Gi = np.hstack([Fig @ gm.J * gm.v, Fia @ am.J * am.v])
    Q = np.zeros((ntot, ntot))
    Q[:ni, :ni] = Gi @ Gi.T
    Gg = gm.G * gm.q
    Q[ni:ni + ng, ni:ni + ng] = Gg @ Gg.T
    Ga = am.G * am.q
    Q[ni + ng:, ni + ng:] = Ga @ Ga.T
    assert ntot == n, (ntot, n)
    return F, Q


def build(case):
    n, fk = case['n'], case['F']
    q = lin.dct_basis(n)
    if fk.startswith('ins'):
        F, Qm = ins_matrices(n, case['op'])
    elif fk == 'zero':
        F = np.zeros((n, n))
    elif fk == 'nilpotent':
        F = np.diag(np.ones(n - 1), 1) if n > 1 else np.zeros((1, 1))
    elif fk == 'stable_diag':
        F = -np.diag(0.2 + 0.3 * np.arange(n))
    elif fk == 'stable_cascade':
        # strictly stable and non-normal: negative diagonal with a forward coupling chain
        F = -np.diag(0.5 + 0.25 * np.arange(n)) + (np.diag(np.ones(n - 1), 1) if n > 1 else 0.0)
    elif fk == 'jordan':
        # one repeated eigenvalue, not diagonalisable (defective): e^{Ft} has polynomial-times-exponential entries
        F = -0.5 * np.eye(n) + (np.diag(np.ones(n - 1), 1) if n > 1 else 0.0)
    elif fk == 'spiral':
        # growing oscillation: 0.2 I plus a skew part
        A = np.array([[np.cos(0.7 * (i + 2) * (j + 1)) for j in range(n)] for i in range(n)])
        F = 0.2 * np.eye(n) + 0.5 * (A - A.T)
    elif fk == 'unstable_diag':
        F = np.diag(0.1 + 0.15 * np.arange(n)) * (1 - 2 * (np.arange(n) % 3 == 0))
    elif fk == 'skew':
        A = np.array([[np.sin(1.1 * (i + 1) * (j + 2)) for j in range(n)] for i in range(n)])
        F = A - A.T
    else:
        lam = np.array([(-1) ** i * (0.1 + 0.2 * i) for i in range(n)])
        F = q.T @ np.diag(lam) @ q + 0.3 * np.diag(np.ones(n - 1), 1) if n > 1 else np.array([[0.4]])
    qk = case['Q']
    if qk == 'model':
        Q = Qm
    elif qk == 'zero':
        Q = np.zeros((n, n))
    elif qk == 'diag':
        Q = np.diag(0.5 + np.arange(n) % 4)
    elif qk == 'rank1':
        a = np.array([((2 * i) % 5) - 2.0 + (i == 0) for i in range(n)])
        Q = np.outer(a, a)
    else:
        Q = q.T @ np.diag(np.linspace(0.0, 2.0, n)) @ q
        Q = (Q + Q.T) / 2
    if fk.startswith('ins') and qk in ('diag', 'rank1'):
        Q = Q * 1e-6
    if qk in ('diag', 'dense', 'rank1') and not fk.startswith('ins'):
        Q = Q * 0.25                      # non-integer noise densities
    Q = Q * case.get('q_scale', 1.0)
    if case.get('int_F'):
        F = F.astype(int)
    dt = case['dt']
    nrm = np.abs(F).sum(axis=1).max()
    capped = False
    if nrm * dt > CAP:
        dt = CAP / nrm
        capped = True
    return F, Q, dt, capped


def partitions(parts_max):
    """Equal splittings k = 1..8 and all ordered compositions of 8/8 from the alphabet {1,2,5}/8."""
    out = [[1.0 / k] * k for k in range(1, 9)]

    def rec(rem, cur):
        if rem == 0:
            if 1 < len(cur) <= parts_max:
                out.append([c / 8.0 for c in cur])
            return
        if len(cur) >= parts_max:
            return
        for a in (1, 2, 5):
            if a <= rem:
                rec(rem - a, cur + [a])
    rec(8, [])
    return out


def run_case(case):
    from pyins import kalman
    F, Q, dt, capped = build(case)
    n = len(F)
    viol = []
    stats = {}

    def v(sig, msg):
        viol.append(dict(sig=sig, msg=msg))

    def tight(name, val):
        stats['max_tight_' + name] = max(stats.get('max_tight_' + name, 0.0), float(val))

    snapF, snapQ = F.copy(), Q.copy()
    Phi, Qd = kalman.compute_process_matrices(F, Q, dt)
    if (F != snapF).any() or (Q != snapQ).any():
        v('c08-arg-mutated', 'compute_process_matrices modified F or Q')
    if Phi.shape != (n, n) or Qd.shape != (n, n):
        v('c08-shapes', 'shapes %s %s' % (Phi.shape, Qd.shape))
        return dict(viol=viol, key=repr(sorted(case.items())), nontrivial=True, stats=stats)
    Phi_ref, Qd_ref, kappa = lin.noise_integral(F, Q, dt)
    # The documented method is Van Loan's block exponential of [[F, Q], [0, -F']] dt, which holds
    # e^{F dt} and e^{-F' dt} side by side: its conditioning is that of the block matrix.
    # (Q normalised to unit size: its scale is a similarity transformation of the block matrix)
    Hb = np.zeros((2 * n, 2 * n))
    Hb[:n, :n], Hb[n:, n:] = F, -F.T
    if Q.any():
        Hb[:n, n:] = Q / np.abs(Q).max() / max(dt, 1e-300) if dt > 0 else 0.0
    if dt > 0:
        kappa = max(kappa, float(np.abs(lin.expm_ld(Hb * dt)).sum(axis=1).max()) *
                    float(np.abs(lin.expm_ld(-Hb * dt)).sum(axis=1).max()))
    c = 256 * n
    tolPhi = c * EPS * kappa * max(1.0, np.abs(Phi_ref).max())
    tolQ = c * EPS * kappa * (np.abs(Qd_ref).max() + np.abs(Q).max() * dt) + 1e-300
    if dt == 0:
        if (Phi != np.eye(n)).any() or (Qd != 0).any():
            v('c08-zero-step', 'dt=0 does not give Phi=I and Qd=0 exactly')
    ePhi = np.abs(Phi - Phi_ref).max()
    eQ = np.abs(Qd - Qd_ref).max()
    tight('Phi', ePhi / tolPhi)
    tight('Qd', eQ / tolQ)
    if ePhi > tolPhi:
        v('c08-transition', 'Phi differs from e^{F dt} by %.3e (tol %.1e, kappa %.1e, dt=%g)'
          % (ePhi, tolPhi, kappa, dt))
    if eQ > tolQ:
        v('c08-noise-integral', 'Qd differs from int e^{Fs} Q e^{F\'s} ds by %.3e (tol %.1e, kappa %.1e, '
          'dt=%g, |Qd|=%.2e)' % (eQ, tolQ, kappa, dt, np.abs(Qd_ref).max()))
    asym = np.abs(Qd - Qd.T).max()
    tight('Qd_symmetry', asym / tolQ)
    if asym > tolQ:
        v('c08-asymmetric', 'Qd asymmetric by %.3e (tol %.1e)' % (asym, tolQ))
    lam = np.linalg.eigvalsh((Qd + Qd.T) / 2).min()
    if lam < -tolQ * n:
        v('c08-not-psd', 'Qd has eigenvalue %.3e (tol %.1e)' % (lam, tolQ * n))
    # composition law over all partitions (differential: only pyins outputs are combined)
    n_part = 0
    if dt > 0:
        cache = {}
        for part in partitions(case['parts']):
            Pc = np.eye(n)
            Qc = np.zeros((n, n))
            for frac in part:
                if frac not in cache:
                    cache[frac] = kalman.compute_process_matrices(F, Q, frac * dt)
                Pi, Qi = cache[frac]
                Qc = Pi @ Qc @ Pi.T + Qi
                Pc = Pi @ Pc
            n_part += 1
            k_ = len(part)
            e1 = np.abs(Pc - Phi).max()
            e2 = np.abs(Qc - Qd).max()
            tight('composition_Phi', e1 / (k_ * tolPhi))
            tight('composition_Qd', e2 / (k_ * tolQ))
            if e1 > k_ * tolPhi:
                v('c08-composition-transition', 'product of sub-step transitions for partition %s differs '
                  'from the one-step transition by %.3e (tol %.1e)' % (part, e1, k_ * tolPhi))
            if e2 > k_ * tolQ:
                v('c08-composition-noise', 'accumulated sub-step noise for partition %s differs from the '
                  'one-step Qd by %.3e (tol %.1e)' % (part, e2, k_ * tolQ))
    # the SAME array objects again with their contents doubled in place: (2F, 2Q, dt) is the problem (F, Q, 2 dt), so
    # the result must be what fresh copies of the original arrays give for 2 dt (a result remembered for the caller's
    # array OBJECTS would come back stale here)
    if dt > 0 and 2 * np.abs(F).sum(axis=1).max() * dt <= CAP and not case.get('int_F'):
        F0, Q0 = F.copy(), Q.copy()
        kalman.compute_process_matrices(F, Q, dt)
        F *= 2.0
        Q *= 2.0
        Phi_s, Qd_s = kalman.compute_process_matrices(F, Q, dt)
        Phi_f, Qd_f = kalman.compute_process_matrices(F0, Q0, 2 * dt)
        sc_ = 1.0 + np.abs(Phi_f).max()
        if np.abs(Phi_s - Phi_f).max() > 64 * EPS * n * sc_ + 4 * tolPhi or np.abs(Qd_s - Qd_f).max() > 64 * EPS * n * (np.abs(Qd_f).max() + 1e-300) + 4 * tolQ:
            v('c08-stale-for-same-objects', 'after F and Q were doubled in place, the call with the same array objects differs from '
              'the call with fresh arrays for the equivalent problem (F, Q, 2 dt): Phi by %.3e, Qd by %.3e'
              % (np.abs(Phi_s - Phi_f).max(), np.abs(Qd_s - Qd_f).max()))
        F[...] = F0
        Q[...] = Q0
        stats['same_object_calls'] = 1
    stats['partitions'] = n_part
    stats['capped'] = int(capped)
    stats['max_kappa'] = kappa
    first = {}
    for q_ in viol:
        first.setdefault(q_['sig'], q_)
    nontrivial = bool(F.any() and Q.any() and dt > 0)
    return dict(viol=list(first.values()), key=repr(sorted(case.items())), nontrivial=nontrivial, stats=stats)

"""C13 - no-altitude mode keeps altitude frozen and vertical velocity zero.

Integrator part: engine E1 (mc/seqx.py) with with_altitude=False, +-2 g vertical specific
force, initial VD != 0 and set_pva states {same alt VD=0, new alt VD=0, new alt VD=3,
VD=-7}; invariant on every row produced in every reachable state.
Filter part: engine E2 (mc/schedx.py) restricted to with_altitude=False with measurement
values carrying large vertical offsets; exact zeros in the result tables; two-row
measurement models (observed through the spy log).
"""
import hashlib

import numpy as np

from mc import schedx, seqx
from mc.props import c02 as _c02

ID = 'C13'
LEVEL = 'model_checking'
CASE_TIMEOUT = 1500
BATCH = 4
RULE = ('integrator cases: one (capacity, increments kind, initial VD, set_pva alphabet) configuration '
        'each, all call histories with <= d deviations explored breadth-first on live 2D integrators; '
        'filter cases: every schedule with <= M samples (vertical offsets 40 m / 5 m/s) on both real '
        'filters in 2D mode. Non-trivial = at least one produced row / one in-span sample; distinct = '
        'distinct reachable integrator states + distinct (configuration, cursor sequence, spy log).')
ASSUMPTIONS = _c02.ASSUMPTIONS + ['filter schedules bounded as in C09/C10']


def gen_cases(tier, seed):
    dev = 2 if tier == 'quick' else 3
    cases = []
    for cap in ((2, 4) if tier == 'quick' else (1, 2, 3, 4, 6)):
        for kind in ('vertical', 'normal', 'seam'):       # seam: westward across the 180th meridian
            for init_vd in (0.0, 4.5):
                if kind == 'seam' and (init_vd != 0.0 or cap not in (2, 3)):
                    continue
                cases.append(dict(part='integrator', capacity=cap, wa=False, kind=kind,
                                  init_vd=init_vd, max_dev=dev, set_ops=['Sa', 'Sb', 'Sc', 'Sd']))
    # unobserved histories (see C02): nothing is read between the calls
    for cap in (2, 4):
        for init_vd in (0.0, 4.5):
            cases.append(dict(part='integrator', blind=True, capacity=cap, wa=False, kind='vertical', init_vd=init_vd,
                              max_dev=1 if tier == 'quick' else 2, set_ops=['Sa', 'Sb', 'Sc', 'Sd']))
    # filter part
    m = 1 if tier == 'quick' else 2
    for pattern in ('uniform', 'gap', 'irregular'):
        for step in schedx.STEPS:
            for s in schedx.subsets_upto(3, m):
                for filt in ('fb', 'ff'):
                    for models in (('bias',) if tier == 'quick' else ('bias', 'sm')):
                        cases.append(dict(part='filter', filt=filt, pattern=pattern, n=3, t0=0.0,
                                          wa=False, step=step, samples=[list(x) for x in s],
                                          models=models, form='list', vert=True))
            # kilometre-size position fixes and horizontal-only (VD = NaN) velocity fixes
            for s in schedx.subsets_upto(3, 1):
                if len(s) == 1 and s[0][1] in ('P', 'V'):
                    for filt in ('fb', 'ff'):
                        flag = 'big' if s[0][1] == 'P' else 'nan_vertical'
                        cases.append(dict(part='filter', filt=filt, pattern=pattern, n=3, t0=0.0, wa=False, step=step,
                                          samples=[list(x) for x in s], models='bias', form='list', vert=True, **{flag: True}))
            if tier == 'quick':
                # a handful of pairs incl. clustered ones
                for s in ([(1, 'P'), (2, 'V')], [(5, 'P'), (5, 'V')], [(9, 'V'), (10, 'P')],
                          [(6, 'P'), (7, 'P')], [(3, 'V'), (11, 'B')]):
                    for filt in ('fb', 'ff'):
                        cases.append(dict(part='filter', filt=filt, pattern=pattern, n=3, t0=0.0,
                                          wa=False, step=step, samples=[list(x) for x in s],
                                          models='bias', form='list', vert=True))
    return cases


def run_filter_case(case):
    viol = []

    def v(sig, msg):
        viol.append(dict(sig=sig, msg=msg))

    obs = schedx.run_filter(case['filt'], case)
    f = case['filt']
    if obs['err'] is not None:
        # termination / exceptions are C09/C10's business; here they only make the case void
        v('c13-filter-did-not-run', '%s filter failed on a 2D schedule: %s' % (f, obs['err'][1]))
        return viol, obs
    res = obs['res']
    alt0 = float(obs['pva0']['alt'])
    sd = res['trajectory_sd']
    if (sd['down'].values != 0.0).any() or (sd['VD'].values != 0.0).any():
        v('c13-%s-sd-nonzero' % f, '%s filter reports non-zero sd for down/VD in 2D mode: %s'
          % (f, sd[['down', 'VD']].abs().max().to_dict()))
    if f == 'fb':
        tr = res['trajectory']
        if (tr['VD'].values != 0.0).any():
            v('c13-fb-vd-nonzero', 'feedback trajectory has VD != 0 in 2D mode: %s'
              % tr['VD'].values.tolist())
        if (tr['alt'].values != alt0).any():
            v('c13-fb-altitude-changes', 'feedback trajectory altitude %s != supplied %r'
              % (tr['alt'].values.tolist(), alt0))
    # every in-span sample is used (a horizontal-only fix is a fix) and gives a finite 2-row innovation
    times_ = obs['times']
    want = sorted(obs['slots'][s_] for s_, k_ in case['samples'] if times_[0] <= obs['slots'][s_] < times_[-1])
    used = sorted(t for _, t, ok, _ in obs['log'] if ok)
    if used != want:
        v('c13-sample-not-used', '2D: samples at %s used, expected %s' % (used, want))
    for nm_, inn in res['innovations'].items():
        if len(inn) and not np.isfinite(np.asarray(inn.values, dtype=float)).all():
            v('c13-innovation-nonfinite', '2D: non-finite innovation for %s' % nm_)
    # two-row measurement models
    for tag, t, ok, nz in obs['log']:
        if ok and tag in ('P', 'V') and nz != 2:
            v('c13-measurement-rows', '%s model returned %d rows in 2D mode' % (tag, nz))
        if ok and tag == 'B' and nz != 3:
            v('c13-measurement-rows', 'BodyVelocity model returned %d rows' % nz)
    return viol, obs


def run_case(case):
    if case.get('part', 'integrator') == 'integrator' or 'history' in case:
        ex, viol = _c02._run(case, 'c13-')
        return dict(viol=viol, key=None, nontrivial=True,
                    stats=dict(integrator_states=ex.n_states, integrator_transitions=ex.n_trans,
                               min_completed_deviation_bound=ex.completed_dev),
                    states=ex.n_states, transitions=ex.n_trans)
    viol, obs = run_filter_case(case)
    times = obs['times']
    in_span = sum(1 for s, _ in case['samples'] if times[0] <= obs['slots'][s] < times[-1])
    trace = [list(s) if s is not None else None for s in obs['states']]
    h = hashlib.sha1(repr((case['filt'], case['pattern'], case['step'], case['models'], trace,
                           [(k, t, ok) for k, t, ok, _ in obs['log']])).encode()).hexdigest()[:16]
    return dict(viol=viol, key=h, nontrivial=in_span >= 1,
                stats=dict(filter_runs=1, spy_calls=len(obs['log'])),
                states=len({tuple(s) for s in trace if s}), transitions=max(0, len(trace) - 1),
                fkey=h)


def finalize(cases, results, tier):
    st = sum(r.get('states', 0) for r in results)
    tr = sum(r.get('transitions', 0) for r in results)
    keys = {r['fkey'] for r in results if r.get('fkey') and r['nontrivial']}
    ist = sum(r['stats'].get('integrator_states', 0) for r in results)
    return dict(states=st, transitions=tr, traces_validated_against_impl=tr,
                distinct_nontrivial=ist + len(keys),
                explanation='integrator part: states = distinct content hashes, transitions = real '
                            'method calls; filter part: loop-head cursor states/iterations of real '
                            'filter runs')

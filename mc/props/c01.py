"""C01 - strapdown integration converges to the true navigation solution.

Engine E3: full product of a motion lattice x sensor type, each point run on the real
pipeline compute_increments_from_imu -> Integrator.integrate on a ladder of sampling
intervals and compared with the closed-form kinematic truth (mc/truth/kin.py).
Oracle: telescoped halving law per channel (see run_case): the distance to the truth at
every rung is bounded by the sum of the halving changes below it plus twice the last
one, and the finest rung is clearly better than the coarse ones.
"""
import itertools

import numpy as np
import pandas as pd

from mc.truth import geo, kin, rot

ID = 'C01'
LEVEL = 'exploration'
CASE_TIMEOUT = 900
BATCH = 2
K_TAIL = 2.0
RULE = ('full Cartesian product of site x cruise x attitude dynamics x weave x sensor type; every point '
        'is integrated by the real code on the whole dt ladder. Non-trivial = speed > 0 or rotating '
        'attitude or weave (anything but the static tilt at rest); distinct = distinct lattice points.')
ASSUMPTIONS = [
    'truth = closed-form kinematics of analytic motions (self-tested against an ECEF-frame ODE)',
    'verdict is for the enumerated lattice and the finite dt ladder, not the continuum',
    'telescoped halving law, tail constant K=2 (a geometric tail with ratio <= 1/2 sums to <= 1 x the last change); round-off floor formulas in the code',
]
COLS = ['lat', 'lon', 'alt', 'VN', 'VE', 'VD', 'roll', 'pitch', 'heading']
IMU_COLS = ['gyro_x', 'gyro_y', 'gyro_z', 'accel_x', 'accel_y', 'accel_z']


def gen_cases(tier, seed):
    phase = (seed % 8) * 0.37
    lon_shift = (seed % 8) * 3.3
    cases = []
    if tier == 'quick':
        sites = [(-85.0, -179.5, 3000.0), (-33.0, 151.0, 20000.0), (0.0, 10.0, -500.0),
                 (47.0, -179.999, 3000.0), (85.0, 10.0, 20000.0),
                 # just west of the 180th meridian: eastward courses cross it from the other side
                 (-60.0, 179.9995, 3000.0)]
        cruises = [(0.0, 45.0, 0.0), (30.0, 200.0, 5.0), (300.0, 45.0, -5.0), (300.0, 200.0, 0.0)]
        ladder = [0.04, 0.02, 0.01, 0.005, 0.0025]
        horizons = [8.0]
    else:
        sites = [(la, lo, al) for la in (-85.0, -33.0, 0.0, 47.0, 85.0)
                 for lo in (-179.5, 10.0, 151.0, 179.9995) for al in (-500.0, 3000.0, 20000.0)]
        cruises = [(s, c, cl) for s in (0.0, 30.0, 300.0) for c in (45.0, 200.0)
                   for cl in (0.0, 5.0, -5.0)]
        ladder = [0.05, 0.025, 0.0125, 0.00625, 0.003125, 0.0015625]
        horizons = [8.0]
    for (la, lo, al), (sp, co, cl), att, weave, typ, hz in itertools.product(
            sites, cruises, kin.ATTITUDES, (False, True), ('rate', 'increment'), horizons):
        lo2 = lo if abs(lo) > 179 else lo + lon_shift
        # every second lattice point runs on a dyadic ladder (1/32 ... 1/512 s: intervals that are not a whole
        # number of microseconds or milliseconds), the others on the decimal one
        ldr = [2.0 ** -k for k in range(5, 5 + len(ladder))] if len(cases) % 2 else ladder
        cases.append(dict(lat=la, lon=lo2, alt=al, speed=sp, course=co, climb=cl, attitude=att,
                          weave=weave, type=typ, ladder=ldr, T=hz, phase=phase))
    if tier == 'quick':
        # the 1 ms end of the interval range, a two-minute horizon and one Schuler period on a few lattice points
        # (the thorough tier has the full sub-lattice)
        for k, ((la, lo, al), att) in enumerate(itertools.product(sites, kin.ATTITUDES)):
            sp, co, cl = cruises[1 + k % 3]
            typ = ('rate', 'increment')[k % 2]
            cases.append(dict(lat=la, lon=lo, alt=al, speed=sp, course=co, climb=cl, attitude=att,
                              weave=True, type=typ, ladder=[0.008, 0.004, 0.002, 0.001], T=8.0, phase=phase))
            cases.append(dict(lat=la, lon=lo, alt=al, speed=sp, course=co, climb=0.0, attitude=att,
                              weave=True, type=('increment', 'rate')[k % 2], ladder=[0.04, 0.02, 0.01, 0.005],
                              T=120.0, phase=phase))
        for (la, lo, al, sp, typ) in [(-60.0, 151.0, 3000.0, 30.0, 'rate'), (47.0, -170.0, 10000.0, 0.0, 'increment')]:
            # (first in the list: they take about half a minute each and should not start last)
            cases.insert(0, dict(lat=la, lon=lo, alt=al, speed=sp, course=200.0, climb=0.0,
                                 attitude='yaw_osc_slow', weave=False, type=typ,
                                 ladder=[0.08, 0.04, 0.02], T=5064.0, phase=phase))
    if tier == 'thorough':
        # the 2 ms / 1 ms pair and the long horizons on a sub-lattice
        sub_sites = [(-85.0, -179.5, 3000.0), (-33.0, 151.0, 20000.0), (0.0, 10.0, -500.0),
                     (47.0, 10.0, 3000.0), (85.0, 151.0, 20000.0)]
        for (la, lo, al), (sp, co, cl), att, typ in itertools.product(
                sub_sites, [(30.0, 200.0, 5.0), (300.0, 45.0, -5.0)], kin.ATTITUDES,
                ('rate', 'increment')):
            cases.append(dict(lat=la, lon=lo, alt=al, speed=sp, course=co, climb=cl, attitude=att,
                              weave=True, type=typ, ladder=[0.008, 0.004, 0.002, 0.001], T=8.0, phase=phase))
            cases.append(dict(lat=la, lon=lo, alt=al, speed=sp, course=co, climb=0.0, attitude=att,
                              weave=True, type=typ, ladder=[0.04, 0.02, 0.01, 0.005], T=120.0, phase=phase))
        # gentle motions over one Schuler period
        for (la, lo, al) in [(-60.0, 151.0, 3000.0), (0.0, 10.0, 0.0), (47.0, -170.0, 10000.0)]:
            for (sp, co) in [(0.0, 45.0), (30.0, 200.0)]:
                for typ in ('rate', 'increment'):
                    cases.append(dict(lat=la, lon=lo, alt=al, speed=sp, course=co, climb=0.0,
                                      attitude='yaw_osc_slow', weave=False, type=typ,
                                      ladder=[0.08, 0.04, 0.02, 0.01], T=5064.0, phase=phase))
    return cases


def build_motion(case):
    att = case['attitude']
    if att == 'yaw_osc_slow':
        m = kin.make_motion(case['lat'], case['lon'], case['alt'], case['speed'], case['course'],
                            case['climb'], 'tilt', False, case['phase'])
        crs = case['course'] * geo.D2R
        m = kin.Motion(m.f[0], m.f[1], m.f[2], kin.Sines(0.02, 0.0, [(0.05, 0.011, 0.3)]),
                       kin.Sines(-0.03, 0.0, [(0.04, 0.013, 1.0)]),
                       kin.Sines(crs, 0.0, [(0.6, 0.02, 0.4 + case['phase'])]))
        return m
    return kin.make_motion(case['lat'], case['lon'], case['alt'], case['speed'], case['course'],
                           case['climb'], att, case['weave'], case['phase'])


def make_imu(m, t, typ):
    if typ == 'rate':
        w, f = m.imu(t)
    else:
        dt = np.diff(t)
        t_prev = np.concatenate([[t[0] - dt[0]], t[:-1]])
        w, f = m.integrals(t_prev, t)
    return pd.DataFrame(np.hstack([w, f]), index=pd.Index(t, name='time'), columns=IMU_COLS)


def pva_at(m, t):
    lla = m.lla(t)
    return pd.Series(np.hstack([lla[0] * geo.R2D, lla[1] * geo.R2D, lla[2], m.vel(t),
                                m.rph(t) * geo.R2D]), index=COLS, name=float(t))


def run_pipeline(m, dt, T, typ, chunk=0):
    from pyins import strapdown
    n = int(round(T / dt))
    t = np.arange(n + 1) * dt
    imu = make_imu(m, t, typ)
    inc = strapdown.compute_increments_from_imu(imu, typ)
    integ = strapdown.Integrator(pva_at(m, 0.0))
    if chunk:
        # named columns carry the meaning, not their position: shuffled layout plus an extra column
        inc = inc[['dv_z', 'theta_x', 'dt', 'dv_x', 'theta_z', 'dv_y', 'theta_y']].copy()
        inc['flags'] = 0.0
    if chunk:
        # the way the filters drive the integrator: consecutive integrate calls (C02 decides
        # that this is bit-identical to one call; here it only widens the driver)
        for a in range(0, len(inc), chunk):
            integ.integrate(inc.iloc[a:a + chunk])
    else:
        integ.integrate(inc)
    return t, integ.trajectory.values


def errors_vs_truth(m, t, sol):
    lla = m.lla(t)
    rn, re = geo.radii(lla[:, 0], lla[:, 2])
    dlat = sol[:, 0] * geo.D2R - lla[:, 0]
    dlon = sol[:, 1] * geo.D2R - lla[:, 1]
    dlon = (dlon + np.pi) % (2 * np.pi) - np.pi
    dpos = np.stack([dlat * rn, dlon * re * np.cos(lla[:, 0]), sol[:, 2] - lla[:, 2]], axis=1)
    dvel = sol[:, 3:6] - m.vel(t)
    c_true = m.c_nb(t)
    c_sol = kin._c_nb(sol[:, 6] * geo.D2R, sol[:, 7] * geo.D2R, sol[:, 8] * geo.D2R)
    return (np.linalg.norm(dpos, axis=1).max(), np.linalg.norm(dvel, axis=1).max(),
            _angles(c_sol, c_true).max())


def _angles(a, b):
    d = np.einsum('nij,nkj->nik', a, b)
    v = np.stack([d[:, 2, 1] - d[:, 1, 2], d[:, 0, 2] - d[:, 2, 0], d[:, 1, 0] - d[:, 0, 1]],
                 axis=1) / 2
    return np.arctan2(np.linalg.norm(v, axis=1), (np.trace(d, axis1=1, axis2=2) - 1) / 2)


def halving_change(sol_c, sol_f, lat_for_scale, alt):
    """max over common epochs of |sol_dt - sol_dt/2| per channel."""
    f = sol_f[::2]
    n = min(len(sol_c), len(f))
    c, f = sol_c[:n], f[:n]
    lat = lat_for_scale * geo.D2R
    rn, re = geo.radii(lat, alt)
    dlat = (c[:, 0] - f[:, 0]) * geo.D2R
    dlon = (c[:, 1] - f[:, 1]) * geo.D2R
    dlon = (dlon + np.pi) % (2 * np.pi) - np.pi
    dpos = np.stack([dlat * rn, dlon * re * np.cos(lat), c[:, 2] - f[:, 2]], axis=1)
    dvel = c[:, 3:6] - f[:, 3:6]
    ca = kin._c_nb(c[:, 6] * geo.D2R, c[:, 7] * geo.D2R, c[:, 8] * geo.D2R)
    cf = kin._c_nb(f[:, 6] * geo.D2R, f[:, 7] * geo.D2R, f[:, 8] * geo.D2R)
    return (np.linalg.norm(dpos, axis=1).max(), np.linalg.norm(dvel, axis=1).max(),
            _angles(ca, cf).max())


def floors(case, dt):
    """Round-off floors per channel: accumulated rounding of N steps.
    position: latitude/longitude are stored in degrees, one ulp of 180 deg is 2.8e-14 deg = 3.2e-9 m;
    velocity: ulp of |v| <= 300 (5.7e-14) plus ulp of g*dt products; attitude: ulp of 1 rad per
    rotation composition, and the Euler angles are returned in degrees (ulp of 360 deg = 1e-15 rad)."""
    n = case['T'] / dt
    eps = np.finfo(float).eps
    # a constant small increment added n times to a latitude/longitude stored in degrees rounds the same way every
    # time: worst case half an ulp of 180 deg (1.6e-9 m) per step, linearly accumulated
    return (max(64 * eps * 6.4e6 * np.sqrt(n), n * np.spacing(180.0) * 1.11e5) + 1e-9,
            64 * eps * 400.0 * np.sqrt(n) + 1e-12,
            64 * eps * np.sqrt(n) + 1e-14)


def run_case(case):
    m = build_motion(case)
    ladder = case['ladder']
    T = case['T']
    sols, E = {}, {}
    for dt in ladder:
        # every rung is integrated in consecutive chunks of about 1 s (T/50 on long horizons; the same duration on
        # every rung, so that a history-dependent error would be common to all rungs and
        # could not hide in the halving changes); cases with weave use a single call
        chunk = 0 if case['weave'] else int(round(max(1.0, T / 50.0) / dt)) + 3
        t, sol = run_pipeline(m, dt, T, case['type'], chunk)
        if not np.isfinite(sol).all():
            return dict(viol=[dict(sig='c01-nonfinite', msg='non-finite trajectory at dt=%g' % dt)],
                        key=None, nontrivial=True, stats={})
        sols[dt] = sol
        E[dt] = errors_vs_truth(m, t, sol)
    viol = []
    names = ('position', 'velocity', 'attitude')
    stats = {}
    H = [halving_change(sols[a], sols[b], case['lat'], case['alt'])
         for a, b in zip(ladder[:-1], ladder[1:])]
    L = len(H)
    for c in range(3):
        # Telescoped halving law.  e(dt_k) - e(dt_L) = sum_{j=k}^{L-1} [e(dt_j) - e(dt_j+1)], so
        # E_k <= sum_{j>=k} H_j + E_L, and for an error that vanishes at least linearly the tail
        # E_L = sum_{j>=L} H_j <= (geometric series, ratio <= 1/2) the last halving change.  The
        # last change is taken as max(H_{L-1}, H_{L-2}/2, H_{L-3}/4) so that an accidental
        # cancellation of two error terms of opposite sign at one rung cannot shrink the bound;
        # an error component that does NOT vanish with dt leaves every H unchanged and E large.
        # Round-off: the finest rungs carry the largest accumulated rounding (a constant sub-ulp
        # fraction of the per-step longitude increment is dropped at every step: a plateau that
        # does not shrink with dt); see mc/ladder.py for why f_{L-1} + 2 f_L is the allowance.
        tail = max(H[L - 1 - j][c] / 2 ** j for j in range(min(3, L)))
        fl_tail = floors(case, ladder[-2])[c] + 2 * floors(case, ladder[-1])[c]
        for k, dtk in enumerate(ladder):
            fl = floors(case, dtk)
            allowed = sum(H[j][c] for j in range(k, L)) + K_TAIL * tail + max(fl[c], fl_tail)
            ratio = E[dtk][c] / allowed
            nm = 'max_tight_halving_' + names[c]
            stats[nm] = max(stats.get(nm, 0.0), ratio)
            if E[dtk][c] > allowed:
                viol.append(dict(sig='c01-halving:' + names[c],
                                 msg='%s error %.3e at dt=%g exceeds the telescoped halving bound %.3e '
                                     '(errors down the ladder %s, halving changes %s)'
                                     % (names[c], E[dtk][c], dtk, allowed,
                                        ['%.2e' % E[d][c] for d in ladder],
                                        ['%.2e' % h[c] for h in H])))
        # convergence: the finest rung is clearly better than the coarse ones
        fl = floors(case, ladder[-1])
        if len(ladder) >= 4 and E[ladder[-1]][c] > 0.75 * max(E[d][c] for d in ladder[:-2]) + fl[c]:
            viol.append(dict(sig='c01-not-converging:' + names[c],
                             msg='%s error does not shrink down the ladder: %s'
                                 % (names[c], ['%.2e' % E[d][c] for d in ladder])))
    nontrivial = case['speed'] > 0 or case['attitude'] != 'tilt' or case['weave']
    key = repr((case['lat'], case['lon'], case['alt'], case['speed'], case['course'], case['climb'],
                case['attitude'], case['weave'], case['type'], case['T'], tuple(ladder)))
    stats['integrator_steps'] = int(sum(round(T / d) for d in ladder))
    for c in range(3):
        stats['max_err_coarse_' + names[c]] = E[ladder[0]][c]
        stats['max_err_fine_' + names[c]] = E[ladder[-1]][c]
    first = {}
    for v in viol:
        first.setdefault(v['sig'], v)
    return dict(viol=list(first.values()), key=key, nontrivial=nontrivial, stats=stats)


def finalize(cases, results, tier):
    return dict(axes=dict(
        sites='lat {-85,-33,0,47,85} x lon {-179.5 / -179.999, 10, 151} x alt {-500,3000,20000}',
        cruise='speed {0,30,300} x course {45,200} x climb {0,+-5}',
        attitude=list(kin.ATTITUDES), weave=[False, True], type=['rate', 'increment'],
        ladder=cases[0]['ladder'] if cases else []))

"""C14 - sensor error simulation and estimation models are exact mutual inverses.

The configuration space is finite and enumerated COMPLETELY:
  layout   - all 2^18 enable masks (3 bias, 3 walk, 3 noise, 9 scale/misalignment) against an
             independently written layout specification, incl. the simulator's parameter table;
  numeric  - all 2^9 scale/misalignment masks x 4 bias masks x 3 value sets x stamps: output-matrix
             and inverse identities; estimate accumulation over all update sequences <= 3 (E1);
  noise    - exact gains of the simulator's noise paths by scripted-RNG impulse enumeration,
             compared with what the estimator assumes (no statistics, no sampling).
"""
import itertools

import numpy as np
import pandas as pd

ID = 'C14'
LEVEL = 'model_checking'
CASE_TIMEOUT = 900
BATCH = 2
EPS = np.finfo(float).eps
XYZ = 'xyz'
RULE = ('layout: one case per block of 1024 consecutive masks of the 2^18 mask space (every mask is one '
        'EstimationModel construction compared with the layout specification; valid masks also run '
        'Parameters.apply); numeric: one case per bias mask x value set, all 512 sm masks inside; noise: one '
        'case per (type, stamps). Non-trivial = at least one enabled term; distinct = distinct masks / tuples.')
ASSUMPTIONS = ['layout specification written from the class documentation (bias states in axis order, then '
               'sm_<out><in> row-major)', 'parameter values from a small alphabet of distinct positive numbers']
BLOCK = 1024


def gen_cases(tier, seed):
    cases = [dict(part='layout', start=s) for s in range(0, 2 ** 18, BLOCK)]
    for bias_mask, vs in itertools.product(range(4), range(len(VALUE_SETS))):
        cases.append(dict(part='numeric', bias_mask=[0, 1, 5, 7][bias_mask], values=vs,
                          stamps=('uniform', 'irregular')[(bias_mask + vs) % 2] if tier == 'quick' else 'both'))
    for typ, st in itertools.product(('rate', 'increment'), ('uniform', 'irregular')):
        cases.append(dict(part='noise', type=typ, stamps=st))
    cases.append(dict(part='updates'))
    return cases


def mask_params(mask):
    b = [(mask >> i) & 1 for i in range(3)]
    w = [(mask >> (3 + i)) & 1 for i in range(3)]
    nz = [(mask >> (6 + i)) & 1 for i in range(3)]
    sm = [[(mask >> (9 + 3 * i + j)) & 1 for j in range(3)] for i in range(3)]
    # every second group of seven masks uses nano-scale values: enabled means > 0, however small
    sc = 1e-9 if (mask // 7) % 2 else 1.0
    bias_sd = np.array([0.1 * sc * (i + 1) * b[i] for i in range(3)])
    walk = np.array([0.01 * sc * (i + 1) * w[i] for i in range(3)])
    noise = np.array([0.001 * sc * (i + 1) * nz[i] for i in range(3)])
    sm_sd = np.array([[1e-3 * sc * (3 * i + j + 1) * sm[i][j] for j in range(3)] for i in range(3)])
    return b, w, nz, sm, bias_sd, walk, noise, sm_sd


def spec(b, w, nz, sm, bias_sd, walk, noise, sm_sd):
    """Independent layout specification."""
    states, sds = [], []
    bias_index = {}
    for a in range(3):
        if b[a]:
            bias_index[a] = len(states)
            states.append('bias_' + XYZ[a])
            sds.append(bias_sd[a])
    sm_index = []
    for i in range(3):
        for j in range(3):
            if sm[i][j]:
                sm_index.append((i, j, len(states)))
                states.append('sm_' + XYZ[i] + XYZ[j])
                sds.append(sm_sd[i, j])
    n = len(states)
    walks = [a for a in range(3) if w[a]]
    noises = [a for a in range(3) if nz[a]]
    G = np.zeros((n, len(walks)))
    for j, a in enumerate(walks):
        G[bias_index[a], j] = 1.0
    J = np.zeros((3, len(noises)))
    for j, a in enumerate(noises):
        J[a, j] = 1.0
    H = np.zeros((3, n))
    for a, k in bias_index.items():
        H[a, k] = 1.0
    return dict(states=states, n_states=n, n_noises=len(walks), n_output_noises=len(noises),
                P=np.diag(np.array(sds) ** 2) if n else np.zeros((0, 0)), q=np.array([walk[a] for a in walks]),
                v=np.array([noise[a] for a in noises]), F=np.zeros((n, n)), G=G, H=H, J=J, sm_index=sm_index)


def run_layout(case):
    from pyins import inertial_sensor as isn
    viol = []
    n_valid = n_invalid = 0
    readings = pd.DataFrame(np.array([[1.0, 2.0, 3.0], [1.5, 2.5, 3.5]]), index=[0.0, 0.5],
                            columns=['a', 'b', 'c'])

    def v(sig, msg):
        if len(viol) < 30:
            viol.append(dict(sig=sig, msg=msg))

    for mask in range(case['start'], case['start'] + BLOCK):
        b, w, nz, sm, bias_sd, walk, noise, sm_sd = mask_params(mask)
        invalid = any(w[a] and not b[a] for a in range(3))
        try:
            m = isn.EstimationModel(bias_sd=bias_sd, noise=noise, bias_walk=walk, scale_misal_sd=sm_sd)
        except ValueError:
            if not invalid:
                v('c14-unexpected-valueerror', 'mask %d (valid) raised ValueError' % mask)
            n_invalid += 1
            continue
        if invalid:
            v('c14-walk-without-bias-accepted', 'mask %d enables a bias walk on an axis without bias and was '
              'accepted' % mask)
            continue
        n_valid += 1
        s = spec(b, w, nz, sm, bias_sd, walk, noise, sm_sd)
        if list(m.states) != s['states']:
            v('c14-states', 'mask %d: states %s, specification %s' % (mask, m.states, s['states']))
            continue
        for name in ('n_states', 'n_noises', 'n_output_noises'):
            if getattr(m, name) != s[name]:
                v('c14-dimension:' + name, 'mask %d: %s=%r, specification %r' % (mask, name, getattr(m, name), s[name]))
        for name in ('P', 'q', 'v', 'F', 'G', 'H', 'J'):
            a = np.asarray(getattr(m, name))
            if a.shape != s[name].shape or (a != s[name]).any():
                v('c14-matrix:' + name, 'mask %d: %s=%s, specification %s' % (mask, name, a.tolist(), s[name].tolist()))
        if bool(m.scale_misal_modelled) != bool(s['sm_index']):
            v('c14-scale-misal-flag', 'mask %d: scale_misal_modelled=%r' % (mask, m.scale_misal_modelled))
        # output matrix places the readings in the sm columns (out row, in reading)
        r = np.array([2.0, -3.0, 5.0])
        Hr = m.output_matrix(r)
        Hs = s['H'].copy()
        for i, j, k in s['sm_index']:
            Hs[i, k] = r[j]
        if Hr.shape != Hs.shape or (Hr != Hs).any():
            v('c14-output-matrix', 'mask %d: output_matrix(r)=%s, specification %s' % (mask, Hr.tolist(), Hs.tolist()))
        if (np.asarray(m.H) != s['H']).any():
            v('c14-output-matrix-mutates-H', 'mask %d: output_matrix modified the stored H' % mask)
        # simulator's parameter table: names and order equal the estimator's states
        T = np.eye(3) + sm_sd
        par = isn.Parameters(transform=T, bias=bias_sd, noise=noise, bias_walk=walk, rng=0)
        par.apply(readings, 'rate')
        cols = list(par.data_frame.columns)
        if cols != s['states']:
            v('c14-parameter-table-names', 'mask %d: Parameters.data_frame columns %s, estimator states %s'
              % (mask, cols, s['states']))
    return viol, dict(masks=BLOCK, valid_masks=n_valid, invalid_masks=n_invalid), BLOCK


VALUE_SETS = [
    dict(sm=lambda i, j: 1e-3 * (3 * i + j + 1) * (-1) ** (i + j), bias=[0.01, -0.02, 0.03]),
    dict(sm=lambda i, j: 0.05 * (1 + ((2 * i + j) % 3)) * (-1) ** j, bias=[1.0, 2.0, -0.5]),
    dict(sm=lambda i, j: 0.3 if i == j else 0.2 * (-1) ** i, bias=[-1e-4, 1e-4, 2e-4]),
    # navigation-grade small values: a few ppm of scale factor, nano-radian misalignments, a 0.0004 deg/h bias -
    # small is not zero (any tolerance-based comparison with the nominal value would drop them)
    dict(sm=lambda i, j: 4e-6 * (-1) ** i if i == j else 3e-9 * (1 + i + j) * (-1) ** j, bias=[2e-9, -3e-9, 1e-9]),
]


def stamps_of(kind, n=6):
    if kind == 'uniform':
        return np.arange(n) * 0.25 + 10.0
    return 10.0 + np.array([0.0, 0.25, 0.375, 0.875, 1.0, 1.75])[:n]


def run_numeric(case):
    from pyins import inertial_sensor as isn
    viol = []

    def v(sig, msg):
        if len(viol) < 30:
            viol.append(dict(sig=sig, msg=msg))

    vs = VALUE_SETS[case['values']]
    bm = case['bias_mask']
    n_eval = 0
    max_t = 0.0
    for st in (('uniform', 'irregular') if case['stamps'] == 'both' else (case['stamps'],)):
        t = stamps_of(st)
        k = np.arange(len(t))
        r = np.stack([0.3 * np.sin(0.7 * k + 0.1) + 0.05, -0.2 * np.cos(1.1 * k) + 0.4 * k / 6, 0.1 + 0.07 * k],
                     axis=1)
        readings = pd.DataFrame(r, index=pd.Index(t, name='time'), columns=['theta_x', 'theta_y', 'theta_z'])
        # every mask with float standard deviations; a few masks again with integer-typed ones (an
        # estimate buffer that inherits the dtype of a standard deviation truncates every update)
        for smm, intform in [(s_, False) for s_ in range(512)] + [(s_, True) for s_ in (0, 511, 273, 48, 7, 84)]:
            smb = [[(smm >> (3 * i + j)) & 1 for j in range(3)] for i in range(3)]
            T = np.eye(3) + np.array([[vs['sm'](i, j) * smb[i][j] for j in range(3)] for i in range(3)])
            bias = np.array([vs['bias'][a] * ((bm >> a) & 1) for a in range(3)])
            sm_sd = np.array([[1e-2 * smb[i][j] for j in range(3)] for i in range(3)])
            if intform:
                model = isn.EstimationModel(bias_sd=np.array([(bm >> a) & 1 for a in range(3)], dtype=int),
                                            scale_misal_sd=np.array(smb, dtype=int))
            else:
                model = isn.EstimationModel(bias_sd=np.array([0.1 * ((bm >> a) & 1) for a in range(3)]),
                                            scale_misal_sd=sm_sd)
            par = isn.Parameters(transform=T, bias=bias)
            theta = []
            for name in model.states:
                kind, ax = name.split('_')
                if kind == 'bias':
                    theta.append(bias['xyz'.index(ax)])
                else:
                    i, j = 'xyz'.index(ax[0]), 'xyz'.index(ax[1])
                    theta.append(T[i, j] - (1.0 if i == j else 0.0))
            theta = np.array(theta)
            for typ in ('rate', 'increment'):
                n_eval += 1
                snap = readings.values.copy()
                out = par.apply(readings, typ)
                if (readings.values != snap).any():
                    v('c14-arg-mutated', 'Parameters.apply modified the readings')
                dt = np.hstack([t[1] - t[0], np.diff(t)])
                exp = r @ T.T + (bias if typ == 'rate' else bias * dt[:, None])
                e = np.abs(out.values - exp).max()
                if e > 8 * EPS * (1 + np.abs(exp).max()):
                    v('c14-apply', 'apply(%s) differs from T r + b by %.2e (sm mask %d)' % (typ, e, smm))
                if list(out.columns) != list(readings.columns) or (out.index != readings.index).any():
                    v('c14-apply-schema', 'apply changed columns or index')
                if typ == 'rate':
                    # output matrix times the parameter vector = simulated reading error
                    Hs = model.output_matrix(r) if model.scale_misal_modelled else \
                        np.broadcast_to(model.output_matrix(), (len(r),) + model.H.shape)
                    err_model = np.einsum('nij,j->ni', Hs, theta) if len(theta) else np.zeros_like(r)
                    err_sim = out.values - r
                    e = np.abs(err_model - err_sim).max()
                    if e > 16 * EPS * (1 + np.abs(err_sim).max()):
                        v('c14-output-matrix-vs-simulator', 'output_matrix(readings) @ theta differs from the '
                          'simulated reading error by %.2e (sm mask %d, bias mask %d)' % (e, smm, bm))
                    # the table reports exactly these parameters
                    df = par.data_frame
                    if list(df.columns) != list(model.states):
                        v('c14-parameter-table-names', 'data_frame columns %s vs states %s'
                          % (list(df.columns), model.states))
                    elif len(theta) and np.abs(df.values - theta).max() > 2 * EPS:
                        v('c14-parameter-table-values', 'data_frame values differ from the parameters')
                else:
                    # inverse: correcting with estimates = parameters undoes the simulated error
                    model.reset_estimates()
                    model.update_estimates(theta)
                    ge = model.get_estimates()
                    if list(ge.index) != list(model.states) or (len(theta) and np.abs(ge.values - theta).max() > 2 * EPS):
                        v('c14-estimates-read-back', 'get_estimates does not read back the update')
                    dts = pd.Series(dt, index=readings.index)
                    cor = model.correct_increments(dts, out)
                    tol = 64 * EPS * np.linalg.cond(T) * (1 + np.abs(r).max())
                    e = np.abs(cor.values - r).max()
                    max_t = max(max_t, e / tol)
                    if e > tol:
                        v('c14-inverse', 'correct_increments with estimates = parameters leaves %.2e (tol %.1e, '
                          'sm mask %d, bias mask %d)' % (e, tol, smm, bm))
                    if not isinstance(cor, pd.DataFrame) or list(cor.columns) != list(out.columns):
                        v('c14-correct-schema', 'correct_increments changed the table schema')
                    # single row (Series) form agrees
                    row = model.correct_increments(dt[2], out.iloc[2])
                    if not isinstance(row, pd.Series) or np.abs(row.values - cor.values[2]).max() > 4 * EPS * (1 + np.abs(r).max()):
                        v('c14-correct-series-form', 'Series form of correct_increments differs from the table form')
                    model.reset_estimates()
                    if (model.bias != 0).any() or (model.transform != np.eye(3)).any():
                        v('c14-reset', 'reset_estimates does not restore the initial state')
    return viol, dict(evaluations=n_eval, max_tight_inverse=max_t), n_eval


def run_updates(case):
    """E1: every operation sequence of length <= 4 over {update(a_0..a_3), correct, reset} on ONE live model
    object, against a reference model (accumulated sum since the last reset, own linear solve): estimates read
    back as the sum, several updates equal one update with the sum, and correct_increments always uses the
    CURRENT estimates whatever was called before."""
    from pyins import inertial_sensor as isn
    viol = []

    def v(sig, msg):
        if len(viol) < 20:
            viol.append(dict(sig=sig, msg=msg))

    def fresh():
        return isn.EstimationModel(bias_sd=[0.1, 0, 0.1], scale_misal_sd=[[1e-2, 0, 1e-2], [0, 0, 1e-2], [1e-2, 0, 0]])

    proto = fresh()
    n = proto.n_states
    alpha = [np.array([0.5 ** (k + i + 2) * (-1) ** i for i in range(n)]) for k in range(4)]
    t = stamps_of('irregular')
    dt = np.hstack([t[1] - t[0], np.diff(t)])
    k_ = np.arange(len(t))
    r = np.stack([0.3 * np.sin(0.7 * k_ + 0.1) + 0.05, -0.2 * np.cos(1.1 * k_), 0.1 + 0.07 * k_], axis=1)
    table = pd.DataFrame(r, index=pd.Index(t, name='time'), columns=['dv_x', 'dv_y', 'dv_z'])
    dts = pd.Series(dt, index=table.index)

    def expected_correct(total):
        T = np.eye(3)
        b = np.zeros(3)
        for name, val in zip(proto.states, total):
            kind, ax = name.split('_')
            if kind == 'bias':
                b['xyz'.index(ax)] += val
            else:
                T['xyz'.index(ax[0]), 'xyz'.index(ax[1])] += val
        return np.linalg.solve(T, (r - b * dt[:, None]).T).T, np.linalg.cond(T)

    # G (get_estimates) and M (output_matrix of one reading) are observations: as operations of the alphabet they
    # must not change anything that a later operation reads
    ops = ['U0', 'U1', 'U2', 'U3', 'C', 'R', 'G', 'M']
    states = set()
    trans = 0
    for L in range(0, 5):
        for seq in itertools.product(ops, repeat=L):
            if L == 4 and ('C' not in seq or sum(o_ in 'GM' for o_ in seq) > 1):
                continue        # length-4 sequences are only needed for the interleavings with correct
            model = fresh()
            total = np.zeros(n)
            for op in seq:
                trans += 1
                if op == 'R':
                    model.reset_estimates()
                    total = np.zeros(n)
                elif op == 'G':
                    got_g = model.get_estimates().values
                    if np.abs(got_g - total).max() > 8 * EPS:
                        v('c14-accumulation', 'inside %s get_estimates gives %s, the sum of the updates since the last '
                          'reset is %s' % (list(seq), got_g.tolist(), total.tolist()))
                elif op == 'M':
                    Hm = model.output_matrix(r[3])
                    if Hm.shape != (3, n) or not np.isfinite(Hm).all():
                        v('c14-output-matrix-shape', 'output_matrix of one reading has shape %s' % (Hm.shape,))
                    Hm[...] = 7.0               # the caller owns what it was handed
                elif op == 'C':
                    got = model.correct_increments(dts, table).values
                    exp, cond = expected_correct(total)
                    if np.abs(got - exp).max() > 64 * EPS * cond:
                        v('c14-correct-uses-stale-estimates', 'after %s correct_increments differs from the '
                          'correction with the current estimates by %.3e' % (list(seq), np.abs(got - exp).max()))
                else:
                    a = alpha[int(op[1])]
                    snap = a.copy()
                    model.update_estimates(a)
                    total = total + a
                    if (a != snap).any():
                        v('c14-arg-mutated', 'update_estimates modified its argument')
            got = model.get_estimates().values
            states.add(got.tobytes())
            if np.abs(got - total).max() > 8 * EPS:
                v('c14-accumulation', 'after %s get_estimates gives %s, the sum of the updates since the last '
                  'reset is %s' % (list(seq), got.tolist(), total.tolist()))
            one = fresh()
            one.update_estimates(total)
            if np.abs(one.get_estimates().values - got).max() > 8 * EPS:
                v('c14-accumulation', 'several updates %s differ from one update with their sum' % (list(seq),))
    try:
        fresh().update_estimates(np.zeros(n + 1))
        v('c14-update-length', 'update_estimates accepted a vector of the wrong length')
    except ValueError:
        pass
    return viol, dict(update_states=len(states), update_transitions=trans), trans


class QueueRNG(np.random.RandomState):
    def __init__(self, arrays):
        super().__init__(0)
        self.arrays = list(arrays)

    def randn(self, *shape):
        a = self.arrays.pop(0)
        assert a.shape == tuple(shape)
        return a.copy()


def run_noise(case):
    from pyins import inertial_sensor as isn, kalman
    viol = []
    typ = case['type']
    t = stamps_of(case['stamps'], 5)
    n = len(t)
    r = np.zeros((n, 3))
    readings = pd.DataFrame(r, index=t, columns=['gyro_x', 'gyro_y', 'gyro_z'])
    noise = np.array([1e-3, 2e-3, 3e-3])
    walk = np.array([1e-2, 2e-2, 4e-2])
    dt_w = np.hstack([0.0, np.diff(t)])
    dt_o = np.hstack([t[1] - t[0], np.diff(t)])
    zero = np.zeros((n, 3))
    base = isn.Parameters(noise=noise, bias_walk=walk, rng=QueueRNG([zero, zero])).apply(readings, typ).values
    if np.abs(base).max() != 0:
        viol.append(dict(sig='c14-noise-baseline', msg='zero draws give non-zero output'))
    n_imp = 0
    for k in range(n):
        for a in range(3):
            imp = zero.copy()
            imp[k, a] = 1.0
            n_imp += 2
            # white-noise path (second draw)
            out = isn.Parameters(noise=noise, bias_walk=walk, rng=QueueRNG([zero, imp])).apply(readings, typ).values
            exp = zero.copy()
            exp[k, a] = noise[a] * (dt_o[k] ** -0.5 if typ == 'rate' else dt_o[k] ** 0.5)
            if np.abs(out - exp).max() > 4 * EPS * np.abs(exp).max():
                viol.append(dict(sig='c14-white-noise-gain:' + typ,
                                 msg='unit draw at row %d axis %d gives output %r, expected %r (variance v^2%sdt)'
                                     % (k, a, out[k, a], exp[k, a], '/' if typ == 'rate' else '*')))
            # bias-walk path (first draw)
            out = isn.Parameters(noise=noise, bias_walk=walk, rng=QueueRNG([imp, zero])).apply(readings, typ).values
            exp = zero.copy()
            exp[k:, a] = walk[a] * np.sqrt(dt_w[k])
            if typ == 'increment':
                exp = exp * dt_o[:, None]
            if np.abs(out - exp).max() > 4 * EPS * (np.abs(exp).max() + 1e-300):
                viol.append(dict(sig='c14-bias-walk-gain:' + typ,
                                 msg='unit walk draw at row %d axis %d gives %s, expected %s'
                                     % (k, a, out[:, a].tolist(), exp[:, a].tolist())))
    # what the estimator assumes: bias state with F=0, G=1, q -> Qd = q^2 dt; output noise v -> v^2 dt on the
    # integrated reading; both equal the sums of squared gains above
    m = isn.EstimationModel(bias_sd=0.1, noise=noise, bias_walk=walk)
    for k in range(1, n):
        span = t[k] - t[0]
        _, Qd = kalman.compute_process_matrices(m.F, m.G @ np.diag(m.q ** 2) @ m.G.T, span)
        var_sim = walk ** 2 * np.sum(dt_w[:k + 1])
        if np.abs(np.diag(Qd) - var_sim).max() > 64 * EPS * var_sim.max():
            viol.append(dict(sig='c14-walk-variance-vs-estimator',
                             msg='simulated bias-walk variance %s at t-t0=%g, estimator assumes %s'
                                 % (var_sim.tolist(), span, np.diag(Qd).tolist())))
        # white noise integrated over one interval
        inc_var = (noise * dt_o[k] ** -0.5 * dt_o[k]) ** 2 if typ == 'rate' else (noise * dt_o[k] ** 0.5) ** 2
        JQ = m.J @ np.diag(m.v ** 2) @ m.J.T * dt_o[k]
        if np.abs(np.diag(JQ) - inc_var).max() > 64 * EPS * inc_var.max():
            viol.append(dict(sig='c14-noise-variance-vs-estimator',
                             msg='simulated increment noise variance %s, estimator assumes %s'
                                 % (inc_var.tolist(), np.diag(JQ).tolist())))
    # a simulator built FROM the estimation model carries that model's noise and walk intensities (and nothing else when
    # all of its draws are zero): unit draws give the same gains as above
    for which, a in (('noise', 1), ('walk', 2)):
        imp = zero.copy()
        imp[2, a] = 1.0
        draws = [np.zeros((3, 3)), np.zeros(3)] + ([zero, imp] if which == 'noise' else [imp, zero])
        out = isn.Parameters.from_EstimationModel(m, rng=QueueRNG(draws)).apply(readings, typ).values
        exp = zero.copy()
        if which == 'noise':
            exp[2, a] = noise[a] * (dt_o[2] ** -0.5 if typ == 'rate' else dt_o[2] ** 0.5)
        else:
            exp[2:, a] = walk[a] * np.sqrt(dt_w[2])
            if typ == 'increment':
                exp = exp * dt_o[:, None]
        n_imp += 1
        if np.abs(out - exp).max() > 4 * EPS * np.abs(exp).max():
            viol.append(dict(sig='c14-from-estimation-model:' + which,
                             msg='Parameters.from_EstimationModel: a unit %s draw gives %s, the model\'s intensities imply %s'
                                 % (which, out[:, a].tolist(), exp[:, a].tolist())))
    return viol, dict(impulses=n_imp), n_imp


def run_case(case):
    part = case['part']
    viol, stats, n = {'layout': run_layout, 'numeric': run_numeric, 'updates': run_updates,
                      'noise': run_noise}[part](case)
    first = {}
    for x in viol:
        first.setdefault(x['sig'], x)
    return dict(viol=list(first.values()), key=repr(sorted(case.items())), nontrivial=True, stats=stats,
                points=n)


def finalize(cases, results, tier):
    masks = sum(r['stats'].get('masks', 0) for r in results)
    valid = sum(r['stats'].get('valid_masks', 0) for r in results)
    invalid = sum(r['stats'].get('invalid_masks', 0) for r in results)
    ev = sum(r['stats'].get('evaluations', 0) for r in results)
    us = sum(r['stats'].get('update_states', 0) for r in results)
    ut = sum(r['stats'].get('update_transitions', 0) for r in results)
    imp = sum(r['stats'].get('impulses', 0) for r in results)
    return dict(states=masks + us, transitions=valid + ev + ut + imp,
                traces_validated_against_impl=valid + ev + ut + imp,
                evaluations=masks + ev + ut + imp, distinct_nontrivial=masks - 1 + ev,
                masks_enumerated=masks, masks_valid=valid, masks_rejected=invalid,
                expected_valid=110592, expected_rejected=151552,
                explanation='states = configurations (enable masks) + distinct estimate states reached; '
                            'transitions = real constructor/apply/update/correct calls checked against the '
                            'specification; the mask space is enumerated completely')

"""E1 - explicit-state exploration of operation sequences on live objects (DESIGN.md 3.1).

`explore_integrator` is a deviation-bounded breadth-first search over call histories of
the real `strapdown.Integrator`.  A state is a live object (deep-copied per transition)
plus the reference model and the driver cursor; states are merged by a content hash of
every byte a later operation can read (sound: merged states have identical futures).
"""
import copy
import hashlib

import numpy as np
import pandas as pd

N_ROWS = 10
COLS = ['lat', 'lon', 'alt', 'VN', 'VE', 'VD', 'roll', 'pitch', 'heading']


def increments_table(kind):
    """10 increments whose rows differ in every bit; 'vertical' adds +-2 g vertical force
    and irregular dt."""
    k = np.arange(N_ROWS)
    if kind == 'slow':
        # creeping platform: sub-millimetre motion per sample (anything the kernel might
        # treat as 'unchanged since the last step' must still not depend on the call history)
        dt = np.full(N_ROWS, 0.01)
        times = 100.0 + np.concatenate([[0.0], np.cumsum(dt)])
        theta = 1e-5 * np.stack([np.cos(0.7 * k + 0.2), -np.sin(1.1 * k + 0.5), 0.3 + 0.1 * k], axis=1)
        dv = 1e-4 * np.stack([np.sin(0.9 * k + 0.1), -np.cos(0.6 * k + 0.3), np.sin(1.3 * k)], axis=1)
        dv[:, 2] -= 9.81 * dt
        inc = pd.DataFrame(np.hstack([dt[:, None], theta, dv]), index=pd.Index(times[1:], name='time'),
                           columns=['dt', 'theta_x', 'theta_y', 'theta_z', 'dv_x', 'dv_y', 'dv_z'])
        return times, inc
    if kind in ('deadband', 'dupstamps'):
        # deadband: some gyro increments are EXACTLY zero (quantised / dead-band gyro) right after non-zero ones;
        # dupstamps: a 200 Hz IMU logged by a 10 ms clock - stamps repeat in pairs and the first one equals the
        # start time (the integrator works on rows, the stamps are labels)
        dt = np.full(N_ROWS, 0.5 if kind == 'deadband' else 0.005)
        if kind == 'deadband':
            times = 8.0 + np.concatenate([[0.0], np.cumsum(dt)])
        else:
            times = 8.0 + np.concatenate([[0.0], 0.01 * (np.arange(1, N_ROWS + 1) // 2)])
        theta = np.stack([0.11 * np.cos(0.7 * k + 0.2), -0.083 * np.sin(1.1 * k + 0.5),
                          0.151 + 0.0417 * k], axis=1) * dt[:, None]
        if kind == 'deadband':
            theta[[2, 3, 6, 9]] = 0.0
        dv = np.stack([1.3 * np.sin(0.9 * k + 0.1), -0.77 * np.cos(0.6 * k + 0.3), -9.81 + 0.5 * np.sin(1.3 * k)],
                      axis=1) * dt[:, None]
        inc = pd.DataFrame(np.hstack([dt[:, None], theta, dv]), index=pd.Index(times[1:], name='time'),
                           columns=['dt', 'theta_x', 'theta_y', 'theta_z', 'dv_x', 'dv_y', 'dv_z'])
        return times, inc
    if kind == 'vertical':
        dt = np.array([0.5, 0.25, 0.5, 1.0, 0.5, 0.5, 0.125, 0.5, 0.75, 0.5])
        az = -9.81 + 19.6 * np.sin(1.3 * k + 0.4)
    else:
        dt = np.full(N_ROWS, 0.5)
        az = -9.81 + 0.5 * np.sin(1.3 * k)
    times = 8.0 + np.concatenate([[0.0], np.cumsum(dt)])
    theta = np.stack([0.11 * np.cos(0.7 * k + 0.2), -0.083 * np.sin(1.1 * k + 0.5),
                      0.151 + 0.0417 * k], axis=1) * dt[:, None]
    dv = np.stack([1.3 * np.sin(0.9 * k + 0.1), -0.77 * np.cos(0.6 * k + 0.3), az],
                  axis=1) * dt[:, None]
    inc = pd.DataFrame(np.hstack([dt[:, None], theta, dv]),
                       index=pd.Index(times[1:], name='time'),
                       columns=['dt', 'theta_x', 'theta_y', 'theta_z', 'dv_x', 'dv_y', 'dv_z'])
    return times, inc


def initial_pva(t0, vd, kind='normal'):
    if kind == 'seam':
        # 2 m east of the 180th meridian, 30 m/s westward: the longitude passes -180 deg inside the table
        return pd.Series([-33.5, -179.99998, 500.0, 40.0, -30.0, vd, 12.0, -7.0, 130.0], index=COLS, name=t0)
    if kind == 'slow':
        return pd.Series([48.0, 11.0, 500.0, 0.004, 0.0005, vd * 1e-3, 0.3, -0.2, 85.0],
                         index=COLS, name=t0)
    return pd.Series([-33.5, 151.25, 500.0, 40.0, -30.0, vd, 12.0, -7.0, 130.0],
                     index=COLS, name=t0)


SET_STATES = {
    # name: (lat, lon, alt, VN, VE, VD, roll, pitch, heading) offsets / absolute values
    'Sa': dict(d=[1e-4, -2e-4, 0.0, 0.5, -0.25, 0.0, 0.3, -0.2, 1.0], absolute=False),
    'Sb': dict(d=[47.0, -122.5, 820.0, -80.0, 55.0, 3.0, -40.0, 25.0, -95.0], absolute=True),
    'Sc': dict(d=[0.0, 0.0, 35.5, 0.0, 0.0, 0.0, 0.0, 0.0, 0.0], absolute=False),   # new alt, VD 0
    'Sd': dict(d=[0.0, 0.0, 0.0, 0.0, 0.0, -7.0, 0.0, 0.0, 0.0], absolute=False),   # VD = -7
    # a small overwrite: 0.1 m north, 2 cm up, 0.1 mm/s (anything decided with a relative tolerance drops it)
    'Se': dict(d=[1e-6, 0.0, 0.02, 1e-4, 0.0, 0.0, 0.0, 0.0, 0.0], absolute=False),
    # 'Sf' (handled in Explorer.apply): the state the integrator itself reports, i.e. set_pva(get_pva())
}


def _bytes_df(df):
    return (np.ascontiguousarray(df.values, dtype=float).tobytes()
            + np.ascontiguousarray(np.asarray(df.index, dtype=float)).tobytes())


def content_hash(integ, with_capacity=True):
    """Hash of every byte a later operation can read. The capacity is part of the state
    key (it decides when the next growth happens) but is not observable: predict is
    allowed to grow the buffers, so its 'changes nothing observable' oracle uses
    with_capacity=False."""
    n = len(integ.trajectory)
    h = hashlib.sha1()
    h.update(_bytes_df(integ.trajectory))
    # the internal buffers by their present names; an implementation that stores its state differently is still
    # covered by hidden_hash (every instance attribute) - a renamed buffer must not break the harness
    bufs = [getattr(integ, nm_, None) for nm_ in ('lla', 'velocity_n', 'mat_nb')]
    for b_ in bufs:
        if isinstance(b_, np.ndarray) and len(b_) >= n:
            h.update(np.ascontiguousarray(b_[:n]).tobytes())
    cap = tuple(len(b_) for b_ in bufs if isinstance(b_, np.ndarray)) if with_capacity else ()
    h.update(repr((cap, bool(integ.with_altitude), list(integ.trajectory.columns))).encode())
    return h.hexdigest()


def _deep_bytes(o, n_rows, cap, depth=0):
    """Bytes of an arbitrary attribute value (arrays, tables, containers, scalars), read without calling any
    method or property of the integrator.  Arrays as long as the buffers are cut at the rows in use."""
    if depth > 5:
        return b'deep'
    if isinstance(o, np.ndarray):
        a = o[:n_rows] if (o.ndim >= 1 and len(o) == cap and cap >= n_rows) else o
        return repr((o.dtype.str, a.shape)).encode() + (np.ascontiguousarray(a).tobytes() if o.dtype != object else repr(a.tolist()).encode())
    if isinstance(o, pd.DataFrame):
        return _bytes_df(o) if all(k.kind in 'fiub' for k in o.dtypes) else repr(o.values.tolist()).encode()
    if isinstance(o, pd.Series):
        return np.asarray(o.values, dtype=float).tobytes() + repr(o.name).encode()
    if isinstance(o, (list, tuple)):
        return b'[' + b'|'.join(_deep_bytes(x, n_rows, cap, depth + 1) for x in o) + b']'
    if isinstance(o, dict):
        return b'{' + b'|'.join(repr(k).encode() + b':' + _deep_bytes(o[k], n_rows, cap, depth + 1) for k in sorted(o, key=repr)) + b'}'
    if isinstance(o, (int, float, str, bool, type(None), np.floating, np.integer, np.bool_)):
        return repr(o).encode()
    return type(o).__name__.encode()


def hidden_hash(integ):
    """Hash of EVERY instance attribute (whatever their names), so that two objects whose public content agrees
    but whose private state differs (a pending lazy merge, a remembered previous step) are different states."""
    d = vars(integ)
    n = len(integ.trajectory)
    cap = len(integ.lla) if isinstance(getattr(integ, 'lla', None), np.ndarray) else -1
    h = hashlib.sha1()
    for k in sorted(d):
        h.update(k.encode())
        h.update(_deep_bytes(d[k], n, cap))
    return h.hexdigest()


BLIND_OBSERVERS = ('T', 'G', 'J', 'E', 'N')


class Explorer:
    def __init__(self, capacity, wa, kind, init_vd, set_ops, max_dev, chunk_ops=('I0', 'I2', 'I3', 'Irest')):
        from pyins import strapdown
        self.strapdown = strapdown
        self.capacity, self.wa, self.kind = capacity, wa, kind
        self.times, self.inc = increments_table(kind)
        self.pva0 = initial_pva(self.times[0], init_vd, kind)
        self.set_ops = list(set_ops)
        self.chunk_ops = list(chunk_ops)
        self.max_dev = max_dev
        cls = type('Integrator', (strapdown.Integrator,), {'INITIAL_SIZE': capacity})
        self.cls = cls
        self.ref_cache = {}
        self.custom_states = {}
        self.inc_bytes = _bytes_df(self.inc)
        # nominal rows (data only: used to define the relative set_pva states)
        f = strapdown.Integrator(self.pva0, wa)
        f.integrate(self.inc)
        self.nominal = f.trajectory.values.copy()
        self.viol = []
        self.n_states = 0
        self.n_trans = 0
        self.max_depth = 0
        self.completed_dev = -1
        self.growths = 0
        self.ops_count = {}

    # ------------------------------------------------------------ reference model
    def set_state(self, name, c):
        if isinstance(name, tuple):                    # ('Sf', key): a state captured from a history
            return pd.Series(self.custom_states[name].copy(), index=COLS, name=self.times[c])
        spec = SET_STATES[name]
        d = np.array(spec['d'])
        vals = d.copy() if spec['absolute'] else self.nominal[c] + d
        return pd.Series(vals, index=COLS, name=self.times[c])

    def ref_rows(self, supply, c_from):
        """Rows of a FRESH default-capacity integrator started from the supplied state at
        cursor c_from and given all remaining increments in ONE call."""
        key = (supply, c_from)
        if key not in self.ref_cache:
            pva = self.pva0 if supply == 'init' else self.set_state(supply, c_from)
            f = self.strapdown.Integrator(pva, self.wa)
            f.integrate(self.inc.iloc[c_from:])
            self.ref_cache[key] = (f.trajectory.values.copy(),
                                   np.asarray(f.trajectory.index, dtype=float).copy())
        return self.ref_cache[key]

    def expected(self, model):
        """model = (frozen_rows (array), supply, c_from, cursor). Expected trajectory values."""
        frozen, supply, c_from, c = model
        vals, _ = self.ref_rows(supply, c_from)
        part = vals[: c - c_from + 1]
        return part if frozen is None else np.vstack([frozen, part])

    # ------------------------------------------------------------ exploration
    def v(self, sig, msg, hist):
        if len(self.viol) < 200 or hist == ['SIBLINGS']:
            self.viol.append(dict(sig=sig, msg='%s | history=%s' % (msg, hist),
                                  replay_case=dict(history=list(hist), capacity=self.capacity,
                                                   wa=self.wa, kind=self.kind,
                                                   init_vd=float(self.pva0['VD']))))

    def enabled(self, c):
        ops = []
        rem = N_ROWS - c
        if rem >= 1:
            ops.append('I1')
        for o in self.chunk_ops:
            if o == 'I0':
                ops.append(o)
            elif o == 'I2' and rem >= 2:
                ops.append(o)
            elif o == 'I3' and rem >= 3:
                ops.append(o)
            elif o == 'Irest' and rem >= 4:
                ops.append(o)
        if rem >= 1:
            ops.append('P')
        ops.extend(self.set_ops)
        return ops

    def apply(self, integ, model, op, hist, blind=False):
        """Apply op to a deep copy; run every oracle. Returns (integ2, model2) or None.
        blind=True: nothing of the object is read besides what the operation itself returns (no state check, no
        hash): an observation may itself change hidden state (a lazy merge), so histories are also executed
        without any (see run_blind)."""
        frozen, supply, c_from, c = model
        integ2 = copy.deepcopy(integ)
        hist2 = hist + [op]
        self.ops_count[op] = self.ops_count.get(op, 0) + 1
        cap_before = len(getattr(integ2, 'lla', ()))
        try:
            if op in ('I0', 'I1', 'I2', 'I3', 'Irest', 'Iall'):
                k = {'I0': 0, 'I1': 1, 'I2': 2, 'I3': 3, 'Irest': N_ROWS - c, 'Iall': N_ROWS - c}[op]
                chunk = self.inc.iloc[c:c + k]
                ret = integ2.integrate(chunk)
                c2 = c + k
                model2 = (frozen, supply, c_from, c2)
                exp = self.expected(model2)
                exp_ret = exp[-k - 1:]
                exp_ret_idx = self.times[c2 - k: c2 + 1]
                if (ret.shape != exp_ret.shape
                        or np.ascontiguousarray(ret.values).tobytes() != exp_ret.tobytes()
                        or (np.asarray(ret.index, dtype=float) != exp_ret_idx).any()
                        or list(ret.columns) != COLS):
                    self.v('c02-integrate-return', 'integrate(%d rows) did not return the previous '
                           'last row followed by the rows it appended' % k, hist2)
            elif op == 'P':
                h0 = None if blind else content_hash(integ2, with_capacity=False)
                row = self.inc.iloc[c]
                row_bytes = row.values.tobytes()
                ret = integ2.predict(row)
                if not blind and content_hash(integ2, with_capacity=False) != h0:
                    self.v('c02-predict-mutates', 'predict changed the observable state', hist2)
                exp_next = self.expected((frozen, supply, c_from, c + 1))[-1]
                if (not isinstance(ret, pd.Series) or ret.values.tobytes() != exp_next.tobytes()
                        or ret.name != self.times[c + 1] or list(ret.index) != COLS):
                    self.v('c02-predict-value', 'predict did not return exactly the row the next '
                           'integrate appends', hist2)
                if row.values.tobytes() != row_bytes:
                    self.v('c02-arg-mutated', 'predict modified its argument', hist2)
                if not self.wa and isinstance(ret, pd.Series):
                    # C13: a predicted row is a row produced by the integrator too
                    alt_sup = self.expected(model)[0 if frozen is None else len(frozen)][2]
                    if ret['VD'] != 0.0:
                        self.v('c13-vd-nonzero', '2D: predict returned VD = %r' % ret['VD'], hist2)
                    if ret['alt'] != alt_sup:
                        self.v('c13-altitude-drift:predict', '2D: predict returned altitude %r, last supplied %r'
                               % (ret['alt'], alt_sup), hist2)
                c2 = c
                model2 = model
            else:
                if op == 'Sf':
                    # overwrite with the state the integrator reports itself (a restart from its own state: the
                    # continuation must still be that of a fresh integrator started from these values)
                    cur = integ2.get_pva()
                    exp_cur = self.expected(model)[-1]
                    if cur.values.tobytes() != exp_cur.tobytes():
                        self.v('c02-observers', 'get_pva() before set_pva(get_pva()) is not the latest row', hist2)
                    key_ = ('Sf', hashlib.sha1(exp_cur.tobytes()).hexdigest()[:12])
                    self.custom_states[key_] = exp_cur.copy()
                    op_state = key_
                else:
                    op_state = op
                pva = self.set_state(op_state, c)
                pb = pva.values.tobytes()
                integ2.set_pva(pva)
                if pva.values.tobytes() != pb:
                    self.v('c02-arg-mutated', 'set_pva modified its argument', hist2)
                exp_before = self.expected(model)
                frozen2 = exp_before[:-1] if len(exp_before) > 1 else None
                c2 = c
                model2 = (frozen2, op_state, c, c)
        except Exception as e:  # noqa
            self.v('c02-exception:%s' % type(e).__name__, '%s raised %s: %s'
                   % (op, type(e).__name__, str(e)[:160]), hist2)
            return None
        if len(getattr(integ2, 'lla', ())) != cap_before:
            self.growths += 1
        if _bytes_df(self.inc) != self.inc_bytes:
            self.v('c02-arg-mutated', 'the increments table was modified', hist2)
            self.inc = increments_table(self.kind)[1]
        if not blind:
            self.check_state(integ2, model2, hist2)
        return integ2, model2

    # ------------------------------------------------------------ unobserved histories
    def observe(self, integ, model, hist, obs):
        """First observation after an unobserved history (on a copy), then integrate what is left."""
        frozen, supply, c_from, c = model
        h2 = hist + ['obs:' + obs]
        self.blind_runs = getattr(self, 'blind_runs', 0) + 1
        try:
            if obs == 'T':
                i2 = copy.deepcopy(integ)
                gt = i2.get_time()
                if gt != self.times[c]:
                    self.v('c02-observers', 'get_time() = %r after an unobserved history, expected %r' % (gt, self.times[c]), h2)
            elif obs == 'G':
                i2 = copy.deepcopy(integ)
                gp = i2.get_pva()
                if (not isinstance(gp, pd.Series) or gp.values.tobytes() != self.expected(model)[-1].tobytes()
                        or gp.name != self.times[c]):
                    self.v('c02-observers', 'get_pva() after an unobserved history is not the latest row', h2)
            elif obs == 'J':
                i2 = copy.deepcopy(integ)
                self.check_state(i2, model, h2)
            elif obs == 'E':
                out = self.apply(integ, model, 'I0', hist, blind=True)      # return value of an empty call
                if out is None:
                    return
                i2 = out[0]
            else:
                i2 = copy.deepcopy(integ)                                   # 'N': no observation at all
        except Exception as e:  # noqa
            self.v('c02-exception:%s' % type(e).__name__, 'observer %s raised %s: %s after an unobserved history'
                   % (obs, type(e).__name__, str(e)[:120]), h2)
            return
        # continue: everything that is left in one call (its return value and the final state are checked)
        if c < N_ROWS:
            self.apply(i2, model, 'Iall', h2)
        else:
            self.check_state(i2, model, h2)

    def run_blind(self, max_dev):
        """Depth-first enumeration of ALL histories with <= max_dev deviations, executed on live objects that are
        never looked at in between; after every prefix each first observation of BLIND_OBSERVERS is tried on its own
        copy.  Complements run(): there every state is hashed, i.e. observed, after every call."""
        integ0 = self.cls(self.pva0, self.wa)
        model0 = (None, 'init', 0, 0)
        self.blind_nodes = 0

        def rec(integ, model, hist, dev):
            self.blind_nodes += 1
            self.max_depth = max(self.max_depth, len(hist))
            for obs in BLIND_OBSERVERS:
                self.observe(integ, model, ['BLIND'] + hist, obs)
            if len(hist) >= N_ROWS + max_dev:
                return
            for op in self.enabled(model[3]):
                cost = 0 if op == 'I1' else 1
                if dev + cost > max_dev:
                    continue
                out = self.apply(integ, model, op, ['BLIND'] + hist, blind=True)
                self.n_trans += 1
                if out is None:
                    continue
                rec(out[0], out[1], hist + [op], dev + cost)

        rec(integ0, model0, [], 0)
        self.completed_dev = max_dev
        self.n_states = self.blind_nodes
        return self

    def run_siblings(self):
        """Two (then three) integrators alive at the same time and advanced alternately: each one's trajectory depends only
        on ITS state and increments, so it must be bit-identical to its own single-call reference computed before.
        (Exploration by deep copies cannot see this: a copy gets private buffers even where the originals share them.)"""
        n0 = len(self.viol)
        ref_a = self.ref_rows('init', 0)[0]
        pva_b = self.set_state('Sb', 0)
        fb = self.strapdown.Integrator(pva_b, self.wa)
        fb.integrate(self.inc)
        ref_b = fb.trajectory.values.copy()
        del fb
        for plan in ((('a', 1), ('b', 2), ('a', 2), ('b', 1), ('a', N_ROWS), ('b', N_ROWS)),
                     (('b', 0), ('a', 3), ('b', N_ROWS), ('a', N_ROWS)),
                     (('a', 2), ('c', 1), ('b', 1), ('a', 1), ('c', 2), ('b', N_ROWS), ('a', N_ROWS))):
            objs = {'a': self.cls(self.pva0, self.wa), 'b': self.cls(pva_b, self.wa)}
            if any(w == 'c' for w, _ in plan):
                objs['c'] = self.cls(self.set_state('Sa', 0), not self.wa)      # a third one, in the other altitude mode
            cur = {k: 0 for k in objs}
            for who, k in plan:
                k = min(k, N_ROWS - cur[who])
                objs[who].integrate(self.inc.iloc[cur[who]: cur[who] + k])
                cur[who] += k
                self.ops_count['sibling'] = self.ops_count.get('sibling', 0) + 1
            for who, ref in (('a', ref_a), ('b', ref_b)):
                got = objs[who].trajectory.values
                if got.shape != ref.shape or np.ascontiguousarray(got).tobytes() != ref.tobytes():
                    d = float(np.abs(got - ref).max()) if got.shape == ref.shape else float('nan')
                    self.v('c02-instances-not-independent', 'integrator %r advanced alternately with other live integrators '
                           '(plan %s) differs from its own single-call reference by %.3e' % (who, list(plan), d), ['SIBLINGS'])
                if not self.wa:
                    alt0 = (self.pva0 if who == 'a' else pva_b)['alt']
                    if (got[:, 2] != alt0).any() or (got[1:, 5] != 0).any():
                        self.v('c13-altitude-drift:siblings', '2D: integrator %r advanced alternately with other live integrators '
                               'has altitude %r (supplied %r) / VD %r' % (who, got[:, 2].tolist()[:4], alt0, got[:, 5].tolist()[:4]),
                               ['SIBLINGS'])
        return self.viol[n0:]

    def replay_blind(self, hist):
        ops = [o for o in hist if o != 'BLIND']
        integ = self.cls(self.pva0, self.wa)
        model = (None, 'init', 0, 0)
        h = ['BLIND']
        for op in ops:
            if op.startswith('obs:'):
                self.observe(integ, model, h, op[4:])
                return self
            out = self.apply(integ, model, op, h, blind=True)
            h = h + [op]
            if out is None:
                return self
            integ, model = out
        return self

    def check_state(self, integ, model, hist):
        frozen, supply, c_from, c = model
        exp = self.expected(model)
        tr = integ.trajectory
        idx = np.asarray(tr.index, dtype=float)
        exp_idx = self.times[: c + 1]
        if len(idx) != len(exp_idx) or (idx != exp_idx).any():
            self.v('c02-index', 'time index %s is not the start time followed by every consumed '
                   'increment time exactly once %s' % (idx.tolist(), exp_idx.tolist()), hist)
            return
        got = np.ascontiguousarray(tr.values, dtype=float)
        if got.shape != exp.shape or got.tobytes() != exp.tobytes():
            bad = np.argwhere(got != exp) if got.shape == exp.shape else []
            sig = 'c02-trajectory-bits'
            if supply != 'init':
                sig = 'c02-setpva-continuation'
                if not self.wa and len(bad) and set(bad[:, 1]) <= {2, 5}:
                    sig = 'c02-setpva-continuation:2d-vertical'
            self.v(sig, 'trajectory differs from a fresh single-call integrator (first differing '
                   '[row, col]: %s)' % (bad[0].tolist() if len(bad) else 'shape'), hist)
        # observers
        try:
            gp = integ.get_pva()
            gt = integ.get_time()
            if gp.values.tobytes() != got[-1].tobytes() or gt != exp_idx[-1] or gp.name != gt:
                self.v('c02-observers', 'get_pva/get_time disagree with the trajectory', hist)
        except Exception as e:  # noqa
            self.v('c02-exception:%s' % type(e).__name__, 'observer raised %s' % e, hist)
        # C13 invariants (2D): every produced row has VD == 0 and the altitude last supplied
        if not self.wa:
            n_fro = 0 if frozen is None else len(frozen)
            # the row holding a supplied state is a row of the integrator's trajectory too: the constructor and
            # set_pva store it with VD = 0 (what get_pva, the trajectory and the next integrate call report)
            if (got[:, 5] != 0.0).any():
                self.v('c13-vd-nonzero:supplied-row', '2D: the trajectory reports VD = %s (rows holding a supplied state '
                       'included)' % got[:, 5].tolist(), hist)
            produced = got[n_fro + 1:]
            if len(produced):
                alt_sup = got[n_fro, 2]
                if (produced[:, 5] != 0.0).any():
                    self.v('c13-vd-nonzero', '2D: a produced row has VD != 0', hist)
                if (produced[:, 2] != alt_sup).any():
                    cls = 'after-setpva-vd' if (supply != 'init' and got[n_fro, 5] != 0.0) else 'other'
                    self.v('c13-altitude-drift:' + cls, '2D: altitude of produced rows %s differs '
                           'from the altitude last supplied %r' % (produced[:, 2].tolist(), alt_sup),
                           hist)

    def run(self):
        integ0 = self.cls(self.pva0, self.wa)
        model0 = (None, 'init', 0, 0)
        self.check_state(integ0, model0, [])
        seen = {}
        frontier = {0: [(integ0, model0, [])]}
        seen[(0, content_hash(integ0))] = 0
        self.n_states = 1
        for dev in range(self.max_dev + 1):
            queue = frontier.get(dev, [])
            qi = 0
            while qi < len(queue):
                integ, model, hist = queue[qi]
                qi += 1
                c = model[3]
                self.max_depth = max(self.max_depth, len(hist))
                for op in self.enabled(c):
                    cost = 0 if op == 'I1' else 1
                    if dev + cost > self.max_dev:
                        continue
                    out = self.apply(integ, model, op, hist)
                    self.n_trans += 1
                    if out is None:
                        continue
                    integ2, model2 = out
                    key = (model2[3], content_hash(integ2), model2[1], model2[2], hidden_hash(integ2))
                    d2 = dev + cost
                    if key in seen and seen[key] <= d2:
                        continue
                    seen[key] = d2
                    self.n_states += 1
                    frontier.setdefault(d2, []).append((integ2, model2, hist + [op]))
                    if d2 == dev:
                        pass  # same list object: appended to `queue`, will be processed
            self.completed_dev = dev
            frontier.pop(dev, None)
        return self

    # ------------------------------------------------------------ linear replay
    def replay(self, hist):
        if hist and hist[0] == 'BLIND':
            return self.replay_blind(hist)
        integ = self.cls(self.pva0, self.wa)
        model = (None, 'init', 0, 0)
        self.check_state(integ, model, [])
        h = []
        for op in hist:
            out = self.apply(integ, model, op, h)
            h = h + [op]
            if out is None:
                break
            integ, model = out
        return self

"""E2 - exhaustive schedule enumeration for the two filter loops (DESIGN.md 3.2).

A schedule is (IMU pattern, N, start time, set of measurement samples, time step,
altitude mode, model variant, defaults form).  All times are dyadic rationals so that
coincidence and ordering are exact.  Every schedule is executed on the real filter
under a loop-head monitor (sys.monitoring local LINE events) that records the cursor
state at every iteration and turns a repeated cursor state (= proven livelock) or an
exhausted iteration budget into an exception.
"""
import ast
import inspect
import itertools
import sys
import textwrap

import numpy as np
import pandas as pd

SENSORS = ('P', 'V', 'B')
PATTERNS = {
    'uniform': lambda n: [1.0] * n,
    'gap': lambda n: [1.0, 3.0] + [1.0] * (n - 2),
    'irregular': lambda n: ([1.0, 0.5, 1.5] + [1.0] * (n - 3))[:n],
}
STEPS = ('half', 'equal', 'onehalf', 'huge')


def step_value(name, span):
    return {'half': 0.5, 'equal': 1.0, 'onehalf': 1.5, 'huge': 2.0 * span,
            'd005': 0.05, 'd01': 0.1, 'd025': 0.25}[name]


def imu_times(pattern, n, t0):
    if pattern == 'decimal':
        # the realistic floating-point regime: 0.1 s rows (not dyadic)
        return t0 + np.arange(n + 1) * 0.1
    return t0 + np.concatenate([[0.0], np.cumsum(PATTERNS[pattern](n))])


def slot_times(times):
    """4N+3 slots: before start, every IMU epoch (incl. start and end), the three
    interior quarter points of every interval, after end; followed by their 4N+3 twins."""
    slots = [times[0] - 0.5]
    for a, b in zip(times[:-1], times[1:]):
        slots.append(a)
        for f in (0.25, 0.5, 0.75):
            slots.append(a + f * (b - a))
    slots.append(times[-1])
    slots.append(times[-1] + 0.5)
    # twin slots (index + 4N+3): the same places a quarter of a microsecond later - distinct epochs that
    # any rounding / tolerance-based merging of time stamps would wrongly identify
    # then 4N+3 slots one ulp BEFORE and 4N+3 slots one ulp AFTER each base slot (index + 2(4N+3), + 3(4N+3)): a stamp
    # that differs from a row time in the last bit (0.3 against 3 * 0.1) is a different epoch on a definite side of it
    return slots + [s + TWIN_EPS for s in slots] + [float(np.nextafter(s, -np.inf)) for s in slots] + \
        [float(np.nextafter(s, np.inf)) for s in slots]


TWIN_EPS = 2.0 ** -22


def ulp_family(n):
    """Samples one ulp before / after every IMU (trajectory) epoch: singles for every sensor, and the pairs
    {sample on the epoch, sample one ulp beside it} for P/P and P/V."""
    ns = 4 * n + 3
    epochs = [1 + 4 * i for i in range(n)] + [4 * n + 1]
    out = []
    for e in epochs:
        for side in (2, 3):
            for k in SENSORS:
                out.append([(e + side * ns, k)])
            out.append([(e, 'P'), (e + side * ns, 'P')])
            out.append([(e, 'P'), (e + side * ns, 'V')])
    return out


def twin_family(n):
    """For every slot the pairs {sample at the slot, sample at its twin slot} over all sensor pairs."""
    ns = 4 * n + 3
    return [[(s, k1), (s + ns, k2)] for s in range(ns) for k1 in SENSORS for k2 in SENSORS]


def sample_alphabet(n):
    return [(s, k) for s in range(4 * n + 3) for k in SENSORS]


def subsets_upto(n, m):
    alpha = sample_alphabet(n)
    for r in range(m + 1):
        for c in itertools.combinations(range(len(alpha)), r):
            yield [alpha[i] for i in c]


def cluster_family(n, sizes=(3, 4)):
    """All placements of 3 and 4 samples of one or two sensors inside one IMU interval
    (interior slots and the left epoch), for every interval."""
    out = []
    for i in range(n):
        slots = [1 + 4 * i + j for j in range(4)]       # left epoch + 3 interior slots
        cand = [(s, k) for s in slots for k in ('P', 'V')]
        for r in sizes:
            for c in itertools.combinations(cand, r):
                out.append(list(c))
    return out


# ------------------------------------------------------------------------- loop monitor
class LoopAbort(Exception):
    pass


class LoopMonitor:
    TOOL = 4

    def __init__(self, func, state_fn, budget):
        self.code = func.__code__
        self.line = self._loop_head_line(func)
        self.state_fn = state_fn
        self.budget = budget
        self.states = []
        self.seen = set()
        self.verdict = 'ok'
        self.degraded = False

    @staticmethod
    def _loop_head_line(func):
        src, start = inspect.getsourcelines(func)
        tree = ast.parse(textwrap.dedent(''.join(src)))
        fn = tree.body[0]
        for node in fn.body:
            if isinstance(node, ast.While):
                return start + node.lineno - 1
        for node in ast.walk(tree):
            if isinstance(node, ast.While):
                return start + node.lineno - 1
        raise RuntimeError('no while loop found in %s' % func.__name__)

    def _cb(self, code, line):
        if line != self.line:
            return sys.monitoring.DISABLE
        loc = sys._getframe(1).f_locals
        try:
            st = self.state_fn(loc)
        except Exception:
            st = None
            self.degraded = True
        if st is not None:
            if st in self.seen:
                self.verdict = 'livelock'
                self.states.append(st)
                raise LoopAbort('cursor state %r repeats at the loop head' % (st,))
            self.seen.add(st)
        self.states.append(st)
        if len(self.states) > self.budget:
            self.verdict = 'budget'
            raise LoopAbort('more than %d loop iterations' % self.budget)

    def __enter__(self):
        m = sys.monitoring
        if m.get_tool(self.TOOL) is None:
            m.use_tool_id(self.TOOL, 'verif')
        m.register_callback(self.TOOL, m.events.LINE, self._cb)
        m.set_local_events(self.TOOL, self.code, m.events.LINE)
        m.restart_events()
        return self

    def __exit__(self, *a):
        m = sys.monitoring
        m.set_local_events(self.TOOL, self.code, 0)
        m.register_callback(self.TOOL, m.events.LINE, None)
        return False


def fb_state(loc):
    integ = loc['integrator']
    return (int(loc['increments_index']), int(loc['measurement_time_index']),
            len(integ.trajectory))


def ff_state(loc):
    return (int(loc['index']), int(loc['measurement_time_index']))


# ------------------------------------------------------------------------- fixture
_FIX = {}


def fixture(pattern, n, t0, with_altitude):
    """Small but real navigation data: increments of a slowly manoeuvring body and the
    integrator's own trajectory on them."""
    key = (pattern, n, t0, with_altitude)
    if key in _FIX:
        return _FIX[key]
    from pyins import strapdown
    from pyins.util import TRAJECTORY_COLS
    times = imu_times(pattern, n, t0)
    dt = np.diff(times)
    k = np.arange(n)
    g = 9.81
    theta = np.stack([0.010 * np.cos(0.7 * k + 0.2), -0.008 * np.sin(1.1 * k + 0.5),
                      0.015 + 0.004 * k], axis=1) * dt[:, None]
    dv = np.stack([0.3 * np.sin(0.9 * k + 0.1), -0.2 * np.cos(0.6 * k),
                   -g + 0.05 * np.sin(1.3 * k)], axis=1) * dt[:, None]
    inc = pd.DataFrame(np.hstack([dt[:, None], theta, dv]), index=pd.Index(times[1:], name='time'),
                       columns=['dt', 'theta_x', 'theta_y', 'theta_z', 'dv_x', 'dv_y', 'dv_z'])
    pva0 = pd.Series([-33.5, 151.25, 120.0, 4.0, -3.0, 0.0 if not with_altitude else 0.25,
                      2.0, -3.0, 130.0], index=TRAJECTORY_COLS, name=times[0])
    integ = strapdown.Integrator(pva0, with_altitude)
    integ.integrate(inc)
    traj = integ.trajectory.copy()
    _FIX[key] = (times, inc, pva0, traj)
    return _FIX[key]


def truth_at(traj, t):
    """Row-wise linear interpolation of the fixture trajectory (values only need to be
    plausible: they are measurement *values*, the structure is what E2 decides)."""
    ts = traj.index.values
    t = min(max(t, ts[0]), ts[-1])
    return np.array([np.interp(t, ts, traj[c].values) for c in traj.columns])


def make_measurements(samples, slots, traj, log, vertical_offsets=False, unsorted=False, lever=None, big=False,
                      nan_vertical=False):
    """Spy measurement objects (subclasses of the public classes) for a sample set."""
    from pyins import measurements, transform
    by = {'P': [], 'V': [], 'B': []}
    for s, k in samples:
        by[k].append(slots[s])

    def spy(base, tag):
        class Spy(base):
            def compute_matrices(self, time, pva, error_model):
                ret = base.compute_matrices(self, time, pva, error_model)
                log.append((tag, float(time), ret is not None,
                            None if ret is None else len(ret[0])))
                return ret
        Spy.__name__ = base.__name__
        Spy.__qualname__ = base.__name__
        return Spy

    out = []
    if by['P']:
        ts = sorted(by['P'], reverse=unsorted)      # unsorted: rows of the table in reverse time order
        rows = []
        for j, t in enumerate(ts):
            p = truth_at(traj, t)
            d = np.array([3.0 + j, -2.0, 1.5 if not vertical_offsets else 40.0])
            if big:
                d[:2] = [2000.0 + j, -1500.0]        # kilometre-size fixes: corrections far beyond any linear range
            rows.append(transform.perturb_lla(p[:3], d))
        df = pd.DataFrame(rows, index=ts, columns=['lat', 'lon', 'alt'])
        out.append(spy(measurements.Position, 'P')(df, 2.0, imu_to_antenna_b=lever))
    if by['V']:
        ts = sorted(by['V'], reverse=unsorted)      # unsorted: rows of the table in reverse time order
        rows = []
        for j, t in enumerate(ts):
            p = truth_at(traj, t)
            rows.append(p[3:6] + np.array([0.1, -0.15 - 0.01 * j,
                                           0.05 if not vertical_offsets else 5.0]))
        df = pd.DataFrame(rows, index=ts, columns=['VN', 'VE', 'VD'])
        if nan_vertical:
            df['VD'] = np.nan                        # horizontal-only velocity fixes (2D mode drops the vertical row)
        out.append(spy(measurements.NedVelocity, 'V')(df, 0.2, imu_to_antenna_b=lever))
    if by['B']:
        ts = sorted(by['B'], reverse=unsorted)      # unsorted: rows of the table in reverse time order
        rows = []
        for j, t in enumerate(ts):
            p = truth_at(traj, t)
            c = transform.mat_from_rph(p[6:9])
            rows.append(c.T @ p[3:6] + np.array([0.05 * (j + 1), 0.1, -0.07]))
        df = pd.DataFrame(rows, index=ts, columns=['VX', 'VY', 'VZ'])
        out.append(spy(measurements.BodyVelocity, 'B')(df, 0.3))
    return out, by


def make_models(variant):
    from pyins import inertial_sensor
    if variant == 'none':
        return None, None
    if variant == 'bias':
        return (inertial_sensor.EstimationModel(bias_sd=1e-4, noise=1e-5),
                inertial_sensor.EstimationModel(bias_sd=0.02, noise=1e-3))
    if variant == 'walk':
        return (inertial_sensor.EstimationModel(bias_sd=[1e-4, 0, 2e-4], noise=[1e-5, 1e-5, 0],
                                                bias_walk=[1e-6, 0, 0]),
                inertial_sensor.EstimationModel(bias_sd=0.02, bias_walk=[0, 1e-4, 0]))
    if variant == 'gyro_only':
        # only one of the two models is passed; the other one is the documented default
        return inertial_sensor.EstimationModel(bias_sd=1e-4, noise=1e-5), None
    if variant == 'accel_only':
        return None, inertial_sensor.EstimationModel(bias_sd=[0.02, 0, 0.02], noise=1e-3)
    if variant == 'stateless':
        # models that carry noise only: no states at all
        return inertial_sensor.EstimationModel(noise=1e-5), inertial_sensor.EstimationModel(noise=[1e-3, 0, 1e-3])
    if variant == 'sm':
        return (inertial_sensor.EstimationModel(bias_sd=1e-4, noise=1e-5,
                                                scale_misal_sd=[[1e-3, 0, 1e-3], [0, 0, 0],
                                                                [0, 1e-3, 1e-3]]),
                inertial_sensor.EstimationModel(bias_sd=0.02, noise=1e-3, scale_misal_sd=1e-3))
    raise ValueError(variant)


SDS = (5.0, 0.5, 0.5, 1.0)


def run_filter(kind, case):
    """Execute one schedule on the real filter. Returns a dict of observations."""
    from pyins import filters
    pattern, n, t0 = case['pattern'], case['n'], case['t0']
    wa = case['wa']
    times, inc, pva0, traj = fixture(pattern, n, t0, wa)
    slots = slot_times(times)
    span = times[-1] - times[0]
    step = step_value(case['step'], span)
    log = []
    meas, by = make_measurements([tuple(s) for s in case['samples']], slots, traj, log,
                                 case.get('vert', False), case.get('unsorted', False),
                                 np.array([2.0, -1.0, 0.5]) if case.get('lever') else None,
                                 case.get('big', False), case.get('nan_vertical', False))
    gm, am = make_models(case.get('models', 'bias'))
    form = case.get('form', 'list')
    kwargs = dict(time_step=step, with_altitude=wa)
    if gm is not None:
        kwargs.update(gyro_model=gm)
    if am is not None:
        kwargs.update(accel_model=am)
    if form == 'list':
        kwargs['measurements'] = meas
    elif form == 'empty':
        kwargs['measurements'] = []
    elif form == 'none':
        kwargs['measurements'] = None
    elif form == 'omitted':
        pass
    n_epochs = len({slots[s] for s, _ in case['samples']})
    budget = n + n_epochs + int(span / step) + 8
    obs = dict(times=times, slots=slots, by=by, log=log, step=step, inc=inc, traj=traj,
               pva0=pva0)
    if kind == 'fb':
        mon = LoopMonitor(filters.run_feedback_filter, fb_state, budget)
        call = lambda: filters.run_feedback_filter(pva0, *SDS, inc, **kwargs)  # noqa
        # the earlier call of a 'rerun' case processes a SHORTER span (the first interval only) with the same
        # measurement and model objects: whatever it did to them must not reach the observed call on the full span
        call_short = lambda: filters.run_feedback_filter(pva0, *SDS, inc.iloc[:1], **kwargs)  # noqa
    else:
        mon = LoopMonitor(filters.run_feedforward_filter, ff_state, budget)
        if case.get('models') == 'sm' or case.get('with_inc'):
            kwargs['increments'] = inc
        call = lambda: filters.run_feedforward_filter(traj, traj, *SDS, **kwargs)  # noqa
        kw_short = dict(kwargs)
        if 'increments' in kw_short:
            kw_short['increments'] = inc.iloc[:1]
        call_short = lambda: filters.run_feedforward_filter(traj.iloc[:2], traj.iloc[:2], *SDS, **kw_short)  # noqa
    res = None
    err = None
    if case.get('rerun'):
        # the observed run is the SECOND call with the same measurement and model objects
        for first_call in (call_short, call):
            try:
                first_call()
            except Exception:  # noqa  (the first call's own failures are reported by the plain schedule)
                pass
        del log[:]
    with mon:
        try:
            res = call()
        except LoopAbort as e:
            err = ('loop', str(e))
        except Exception as e:  # noqa
            import traceback
            err = ('exc', '%s: %s' % (type(e).__name__, str(e)[:200]),
                   traceback.format_exc()[-1500:])
    obs.update(res=res, err=err, states=mon.states, verdict=mon.verdict,
               degraded=mon.degraded, gm=gm, am=am)
    return obs


def finite_table(df):
    v = np.asarray(df.values, dtype=float)
    return bool(np.isfinite(v).all())

"""Ladder oracles shared by the E3 checks (DESIGN.md 3.3).

Telescoped halving law.  q(h) is a quantity computed on a ladder h_0 > h_1 > ... > h_L
(h_{j+1} = h_j / 2), q* its claimed limit.  With E_k = |q(h_k) - q*| and
H_j = |q(h_j) - q(h_{j+1})| (norms, maxima over common epochs) the triangle inequality
gives E_k <= sum_{j=k}^{L-1} H_j + E_L.  If the error vanishes at least linearly in h the
tail E_L = sum_{j>=L} H_j is bounded by a geometric series with ratio <= 1/2, i.e. by the
last halving change.  The last change is taken as max(H_{L-1}, H_{L-2}/2, H_{L-3}/4) so
that an accidental cancellation of two error terms of opposite sign at one rung cannot
shrink the bound.  Round-off enters through the floors f_k (a bound on the rounding part
of q(h_k)): the measured H already contain it, the measured last change may understate the
truncation part of E_L by at most f_{L-1} + f_L, and E_L carries f_L itself, so every rung
is allowed max(f_k, f_{L-1} + 2 f_L) on top (a systematic rounding bias - e.g. the same
sub-ulp fraction of a constant increment dropped at every step - does not shrink with h and
shows up as a plateau of the finest rungs; it is legitimate up to these floors and no
further).  An error component that does NOT vanish with h leaves every H
unchanged while E stays put: the bound is violated by about E_inf / H_{L-1}.
"""

K_TAIL = 2.0


def telescoped(E, H, floors, k_tail=K_TAIL):
    """E: list (L+1) of errors; H: list (L) of halving changes; floors: list (L+1).
    Returns list of (k, E_k, allowed_k) that violate, and the max tightness E/allowed."""
    L = len(H)
    tail = max(H[L - 1 - j] / 2 ** j for j in range(min(3, L)))
    bad = []
    tight = 0.0
    fl_tail = floors[L - 1] + 2 * floors[L]
    for k in range(L + 1):
        allowed = sum(H[k:]) + k_tail * tail + max(floors[k], fl_tail)
        if allowed > 0:
            tight = max(tight, E[k] / allowed)
        if E[k] > allowed:
            bad.append((k, E[k], allowed))
    return bad, tight

#!/venv/bin/python
"""Writes /tmp/prompt-<ID>.txt for the seeded-defect sub-agents (property text only,
nothing about /verif's checks) and creates a scratch worktree /tmp/wt-<ID> of /repo HEAD."""
import json, subprocess, sys
props = {}
for l in open('/verif/properties.jsonl'):
    p = json.loads(l); props[p['id']] = p
TEMPLATE = open('/tmp/prompt-C09.txt').read() if False else None
T = """You are helping test a verification harness by writing *seeded defects* (mutants) for the open-source Python library nmayorov/pyins (pure-Python inertial navigation: strapdown integration, INS error model, Kalman filters, IMU simulation, geodetic/attitude transforms).

You have your own scratch git worktree of the library at {wt} (package directory {wt}/pyins, tests in {wt}/pyins/tests). Work ONLY inside {wt} (and /tmp/out-{pid} for your deliverables). Do NOT read, list or touch anything under /verif or /repo or other /tmp/wt-* or /tmp/out-* directories — your work must be independent of any existing checking machinery. Use the interpreter /venv/bin/python (numpy, scipy, pandas, numba, pytest installed; no network). IMPORTANT: pyins is also installed (editable) from another location, so you must make sure YOUR copy is imported: when running `python -c` or `python -m pytest` from inside {wt} (cwd = {wt}), `import pyins` picks up the worktree's copy (cwd is first on sys.path) — always run with cwd={wt} and verify with `python -c "import pyins; print(pyins.__file__)"`.

Here is a semantic property that the library is supposed to satisfy:

ID: {pid}
Title: {title}
Statement: {statement}
Quantified over: {quant}

Your task: produce TWO different, independent, realistic source changes to the library (files under {wt}/pyins, not the tests), each of which
  (a) BREAKS the property above (for at least some inputs / call histories / schedules / configurations) in a way that is a real behavioural violation of the statement (not merely a last-bit rounding difference unless the statement demands bit-identity),
  (b) keeps the package importable, and
  (c) keeps the existing test-suite passing: run `cd {wt} && /venv/bin/python -m pytest -q -p no:cacheprovider --timeout=900 -x -n 4 --deselect pyins/tests/test_sim.py::test_Turntable` (about 2-4 minutes; test_Turntable fails on the unmodified tree already and is excluded). All other tests must pass with your change applied.
Prefer changes that look like a plausible slip or a plausible "optimisation/refactor" a maintainer might make — an off-by-one, a wrong comparison operator, a stale cached value, a sign that only matters in one hemisphere/mode/branch, a wrong coefficient in a term the tests never exercise, a missing copy, state leaking between calls, two sites that each look fine alone. The change must need something SPECIFIC to manifest (an unusual but legitimate input region, a particular configuration/branch/argument form, a multi-step sequence), NOT something that ordinary use or the existing tests would expose at once. The two changes must use different mechanisms / touch different code sites.

For each change k in {{1,2}} deliver, in /tmp/out-{pid}/mut{{k}}/ :
  - patch.diff : `git -C {wt} diff` output for that change alone (relative to the worktree's HEAD), applicable with `git apply`.
  - demo.py : a small standalone program (run as `cd <tree> && /venv/bin/python /tmp/out-{pid}/mut{{k}}/demo.py`, importing pyins from the cwd tree — the script MUST begin with `import sys, os; sys.path.insert(0, os.getcwd())` before importing pyins, and print pyins.__file__) that exits 0 on the UNMODIFIED tree and exits non-zero (assert failure) on the tree with the change applied; it should check the property's behaviour directly (against an independent expectation, not against another pyins function that shares the changed code).
  - notes.md : 5-10 lines: what the change is, why it breaks the property, what exactly is needed for it to manifest, and confirmation that you ran the test-suite (paste the final pytest summary line) and the demo in both states.
Make sure you reset the worktree between the two changes (`git -C {wt} checkout -- .`) and leave the worktree clean (unmodified) when you finish. Verify each patch applies cleanly to a clean worktree with `git -C {wt} apply --check`.

Final answer: a short summary of the two changes (one paragraph each) and the paths of the deliverables."""
for pid in sys.argv[1:]:
    p = props[pid]
    wt = '/tmp/wt-' + pid
    subprocess.run(['git', '-C', '/repo', 'worktree', 'add', '-q', '--detach', wt, 'HEAD'], check=True)
    open('/tmp/prompt-%s.txt' % pid, 'w').write(T.format(wt=wt, pid=pid, title=p['title'],
         statement=p['statement'], quant=p['quantifier']['text']))
    print('ready', pid)

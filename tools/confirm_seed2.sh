#!/bin/bash
# (variant of confirm_seed.sh: the checks run first, the pinned suite last)
# usage: tools/confirm_seed2.sh <dir with patch.diff demo.py notes.md> <seed-name> <property> [checks...]
# Confirms in a scratch worktree of /repo (outside /repo and /verif): demo passes on the clean
# tree, fails with the patch, pinned tests still pass with the patch. Then runs the named
# checks against the patched copy and stores everything under /verif/seeded/<seed-name>/.
set -u
SRC=$(readlink -f "$1"); NAME=$2; PROP=$3; shift 3
WT=$(mktemp -d /var/tmp/seedwt.XXXXXX); rmdir "$WT"
git -C /repo worktree add -q --detach "$WT" HEAD || exit 2
OUT=/verif/seeded/$NAME; mkdir -p "$OUT"
cp "$SRC/patch.diff" "$OUT/patch.diff"; cp "$SRC/demo.py" "$OUT/demo.py"; [ -f "$SRC/notes.md" ] && cp "$SRC/notes.md" "$OUT/notes.md"
( cd "$WT" && timeout 900 /venv/bin/python "$OUT/demo.py" >/dev/null 2>&1 ); demo_clean=$?
git -C "$WT" apply "$OUT/patch.diff" || { echo "APPLY-FAILED"; git -C /repo worktree remove --force "$WT"; exit 2; }
( cd "$WT" && timeout 900 /venv/bin/python "$OUT/demo.py" >/dev/null 2>&1 ); demo_mut=$?
find "$WT" -name __pycache__ -prune -exec rm -rf {} + 2>/dev/null
EVD=$(mktemp -d /var/tmp/seedev.XXXXXX)
results=""
for ID in "$@"; do
  out=$(cd /verif && VERIF_REPO="$WT" VERIF_EVIDENCE_DIR="$EVD" ./check "$ID" --tier quick 2>&1); rc=$?
  first=$(echo "$out" | grep -B1 -m1 '^VIOLATION' | head -1 | cut -c1-260 | sed 's/"/\\"/g')
  results="$results{\"check\":\"$ID\",\"tier\":\"quick\",\"exit\":$rc,\"first_violation\":\"$first\"},"
  echo "  check $ID exit=$rc $first"
done
echo "$NAME: demo clean=$demo_clean mut=$demo_mut (tests pending)"
tests=$( cd "$WT" && nice -n 5 /venv/bin/python -m pytest -q -p no:cacheprovider --timeout=1800 -n 4 --deselect pyins/tests/test_sim.py::test_Turntable 2>&1 | tail -1 )
git -C /repo worktree remove --force "$WT"; rm -rf "$EVD"
cat > "$OUT/meta.json" <<EOM
{"seed": "$NAME", "breaks_property": "$PROP",
 "demo_exit_on_clean_tree": $demo_clean, "demo_exit_with_patch": $demo_mut,
 "pinned_tests_with_patch": "$tests",
 "confirmed": $( [ $demo_clean -eq 0 ] && [ $demo_mut -ne 0 ] && echo true || echo false ),
 "checks_run": [${results%,}],
 "what_i_ran": "scratch worktree of /repo HEAD under /var/tmp; demo.py on clean tree, git apply patch.diff, demo.py again, pinned pytest suite (test_Turntable deselected: fails on the pinned tree), then ./check <ID> --tier quick with VERIF_REPO pointing at the patched worktree; worktree removed afterwards"}
EOM
echo "$NAME: demo clean=$demo_clean mut=$demo_mut tests: $tests"

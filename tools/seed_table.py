#!/venv/bin/python
"""Prints a markdown table (seed | needs | detection history) of the seeds in /verif/seeded that
DESIGN.md does not mention yet (used to write DESIGN.md section 11.6)."""
import json, os
design = open('/verif/DESIGN.md').read()
base = '/verif/seeded'
print('| seed | needs | detection history |\n|---|---|---|')
for d in sorted(os.listdir(base)):
    if d in design:
        continue
    m = json.load(open(os.path.join(base, d, 'meta.json')))
    hist = m.get('detection_history', '?')
    mark = '★ ' if 'missed' in hist else '✓ '
    print('| %s | %s | %s%s |' % (d, m.get('needs_to_manifest', '?').replace('|', '\\|'), mark, hist.replace('|', '\\|')))

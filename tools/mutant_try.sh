#!/bin/bash
# usage: tools/mutant_try.sh <patch.diff> <ID> [<ID> ...]   (env TIER=quick|thorough)
# Applies a patch to a scratch copy of /repo (outside /repo and /verif), runs the named checks
# against it (evidence redirected to a scratch dir), prints KILLED/SURVIVED, removes the copy.
set -u
PATCH=$(readlink -f "$1"); shift
COPY=$(mktemp -d /var/tmp/mutrepo.XXXXXX)
EVD=$(mktemp -d /var/tmp/mutev.XXXXXX)
cp -r /repo/pyins "$COPY/pyins"
( cd "$COPY" && patch -s -p1 < "$PATCH" ) || { echo "PATCH-FAILED $PATCH"; rm -rf "$COPY" "$EVD"; exit 2; }
find "$COPY" -name __pycache__ -prune -exec rm -rf {} + 2>/dev/null
rc_all=0
for ID in "$@"; do
  out=$(cd /verif && VERIF_REPO="$COPY" VERIF_EVIDENCE_DIR="$EVD" ./check "$ID" --tier "${TIER:-quick}" ${JOBS:+--jobs $JOBS} 2>&1)
  rc=$?
  if [ $rc -eq 1 ]; then echo "KILLED   $ID  $(basename $(dirname $PATCH))/$(basename $PATCH): $(echo "$out" | grep -B1 -m1 VIOLATION | head -1 | cut -c1-220)";
  elif [ $rc -eq 0 ]; then echo "SURVIVED $ID  $(basename $(dirname $PATCH))/$(basename $PATCH)"; rc_all=1;
  else echo "HARNESS-ERROR($rc) $ID $PATCH"; echo "$out" | tail -15; rc_all=3; fi
done
rm -rf "$COPY" "$EVD"
exit $rc_all

#!/bin/bash
# usage: tools/seed_sweep.sh [tier] : every check, VERIF_SEED 0..7, evidence redirected; prints non-zero exits
TIER=${1:-quick}
EVD=$(mktemp -d /var/tmp/sweepev.XXXXXX)
for s in 0 1 2 3 4 5 6 7; do
  for i in $(seq -w 1 19); do
    out=$(cd /verif && VERIF_SEED=$s VERIF_EVIDENCE_DIR=$EVD ./check C$i --tier $TIER 2>&1); rc=$?
    echo "seed=$s C$i rc=$rc $(echo "$out" | tail -1)"
    if [ $rc -ne 0 ]; then echo "$out" | grep -B1 VIOLATION | head -6; fi
  done
done
rm -rf $EVD

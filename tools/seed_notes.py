#!/venv/bin/python
"""Adds the hand-written 'needs_to_manifest' / 'detection_history' fields to /verif/seeded/*/meta.json."""
import json, os
NOTES = {
 'C01-sin-lat-sign-lost-south': ('any southern-hemisphere start (sin(lat) recovered through sqrt loses its sign in the kernel); northern tests unaffected', 'caught by C01 as first built'),
 'C01-stale-lat-alt-later-calls': ('increments fed in two or more consecutive integrate() calls plus a change of altitude/latitude (kernel reads lla[i] instead of lla[i+offset])', 'C02 caught it at once (history dependence); C01 missed it because its driver made one integrate call - C01 now integrates every rung in ~1 s chunks'),
 'C02-kernel-lat-cache': ('sub-millimetre north-south motion per IMU sample together with a call history other than one single call (latitude terms cached inside the kernel with a 5e-9 deg hysteresis)', 'initially missed (C02 tables moved 40 m/s); caught after the creeping-platform increments kind "slow" was added to the C02 alphabet'),
 'C02-lazy-setpva-sync': ('the interleaving set_pva -> predict with no integrate in between (lazy buffer sync skipped by predict)', 'caught by C02 as first built'),
 'C03-gravitation-abs-sin': ('any southern latitude (north component of the centrifugal term loses its sign)', 'caught by C03 (moving lattice and rest lattice) and by C16 as first built'),
 'C03-latitude-iteration-off-by-one': ('initial-position+velocity input form AND sustained meridional speed of hundreds of m/s for about an hour (one fixed-point pass fewer)', 'initially missed (8 s horizons); caught after the 1 h / 280 m/s meridional family was added to C03 with the library\'s documented ACCURACY=0.01 m as floor'),
 'C04-propagate-equispaced-assumption': ('a trajectory with unequal sampling intervals passed to propagate_errors', 'initially missed (uniform ladders); caught after the propagate_errors ladder switched to alternating 0.5dt/1.5dt stamps'),
 'C04-rate-n-sign-lost-south': ('any southern latitude (earth.rate_n is used only by the error model)', 'caught by C04 (PHI/DV blocks at lat -80) and C16 (parity) as first built'),
 'C05-correct-east-radius': ('non-zero altitude and latitude away from the equator', 'caught by C05 (correction vs written-out convention) as first built'),
 'C05-heading-jacobian-no-cos-pitch': ('substantial pitch, heading away from 0/180 deg, east tilt', 'caught by C05 and C17 as first built'),
 'C06-body-velocity-2d-column-row': ('with_altitude=False, BodyVelocity, non-level attitude and horizontal speed together', 'caught by C06 as first built'),
 'C06-lever-zero-component-dropped': ('a lever arm with at least one exactly-zero component', 'initially missed (all lever arms of the alphabet were generic); caught after the structured arms (1.5,0,-0.8) and (0,0,-2) were added'),
 'C07-S-jitter': ('innovation covariance of small absolute scale (R ~ 1e-8)', 'caught by C07 (exact rational posterior) as first built'),
 'C07-joseph-diag-R': ('measurement noise matrix with off-diagonal entries', 'caught by C07 as first built'),
 'C08-block-inherits-int-dtype': ('integer-typed F together with non-integer Q', 'initially missed (all-float inputs); caught after the int-dtype argument form and fractional Q values were added'),
 'C08-step-doubling-order': ('||F||_1 dt > 16 with non-zero Q', 'initially missed (||F|| dt capped at 12); caught after the cap was raised to 64 (sharpness now follows the measured conditioning)'),
 'C09-cursor-per-sensor': ('two or more sensors sharing a time stamp', 'caught by C09 as first built'),
 'C09-hoisted-min-interval': ('an IMU gap longer than time_step, or time_step <= IMU interval on a non-dyadic grid', 'caught by C09 (cursor-state repeat = livelock) as first built'),
 'C10-global-step-clamp': ('non-uniform sampling with time_step below the largest gap', 'caught by C10 (step-length bound) as first built'),
 'C10-unique-dropped': ('two measurement objects sharing a time stamp', 'caught by C10 (use-exactly-once via spy log / innovation rows) as first built'),
 'C11-noise-intensity-order': ('gyro bias_walk enabled together with accel noise enabled', 'caught by C11 as first built'),
 'C11-epochs-not-deduplicated': ('two measurement objects sharing a time stamp', 'caught by C11, C09 and C10 as first built'),
 'C12-inplace-reset-keeps-misalignment': ('model with an off-diagonal scale_misal term, a prior run that estimated it, and reuse of the same object', 'caught by C12 (re-run sequences) as first built'),
 'C12-per-measurement-feedback-stale-pva': ('two sensors sharing a time stamp in the feedback filter', 'initially missed (the equivalence scenarios used disjoint stamps); caught after the shared-stamp mix "PVs" was added (and made part of every quick run)'),
 'C13-altitude-row0': ('history integrate -> set_pva(new altitude) -> integrate/predict in 2D mode', 'caught by C13 and C02 as first built'),
 'C13-late-vd-zeroing': ('2D mode, non-zero initial VD, no set_pva on row 0 before the first step', 'caught by C13 (init_vd=4.5 configurations) and C02 as first built'),
 'C14-scale-misal-flag-any': ('enabled scale/misalignment terms all in output row x (7 of 511 masks)', 'caught by C14 (complete mask enumeration) as first built'),
 'C14-stale-cached-inverse': ('history correct -> update -> correct on one model object', 'initially missed (only update -> correct was exercised); caught after the E1 exploration over {update, correct, reset} sequences was added'),
 'C15-rate-sculling-operand-order': ('rate-type sensor with angular acceleration under specific force', 'caught by C15 as first built'),
 'C15-unequal-interval-coeff': ('increment-type sensor with irregular stamps and changing rate', 'caught by C15 as first built'),
 'C16-gravitation-south-sign': ('any southern latitude', 'caught by C16 as first built'),
 'C16-lla-difference-altitude': ('points well above the surface (error ~ alt/R)', 'caught by C16 as first built, but marginally at 10 km; the first-order ladder now also runs at 100 km'),
 'C17-phi-roll-index-slip': ('roll noticeably different from pitch, heading with non-zero sine', 'caught by C17 and C05 as first built'),
 'C17-rotvec-k2-near-pi': ('rotation vector with norm within ~1e-8 of pi (ZeroDivisionError) or close to it', 'initially a HARNESS error (exceptions of compiled code carry no Python frame of the repository); C17/C16 now convert exceptions of numba entry points into violations, and the norm alphabet approaches pi as pi(1-10^-k)'),
 'C18-attitude-sign-twice': ('two tables of different rates, denser one first, non-zero attitude difference', 'caught by C18 (antisymmetry and reference algebra) as first built'),
 'C18-resample-rph-column-order': ('attitude columns in a non-canonical relative order, evaluation off the original rows', 'caught by C18 (column-subset/permutation cases of resample) as first built'),
}

NOTES.update({
 'C19-integrator-ctor-mutates-pva-2d': ('2D mode, non-zero VD, caller inspects the Series it passed', 'caught by C19 as built'),
 'C19-seed-zero-is-no-seed': ('integer seed exactly 0', 'initially missed (no seed 0 in the catalogue); caught after seed-0 forms were added'),
 'C02-2d-altitude-pinned-to-row0': ('2D: integrate -> set_pva(new altitude) -> integrate', 'caught by C02 and C13 as built'),
 'C02-heading-unwrapped-per-chunk': ('heading crossing +-180 deg strictly inside a multi-row integrate call', 'caught by C02 as built'),
 'C09-innovation-index-from-data-head': ('a sensor with a sample before the start (or unsorted data)', 'caught by C09 as built (stamps compared)'),
 'C09-epochs-merged-to-microsecond': ('two distinct time stamps that agree to a microsecond', 'initially missed; caught after twin slots (2^-22 s later) were added to the E2 alphabet'),
 'C10-start-epoch-sample-dropped': ('a sample stamped exactly at the first trajectory row', 'caught by C10 as built'),
 'C10-measurement-cursor-not-reset': ('re-use of the same measurement object in a second filter call (or unsorted data)', 'C12 caught it at once; C10/C09 missed it (fresh objects per run) until second-run cases were added; C19 and C06 now catch it too'),
 'C13-predict-loses-2d-flag': ('predict() in 2D mode', 'C02 caught it at once; C13 missed it until predicted rows were asserted like produced rows'),
 'C13-position-update-unpinned-vd': ('net vertical acceleration in 2D mode', 'caught by C13 as built'),
 'C11-increments-window-left-inclusive': ('increments passed and scale/misalignment states enabled', 'caught by C11 as built'),
 'C11-next-sample-measurement-early': ('a measurement stamped exactly on the trajectory row after a filter epoch', 'caught by C11 and C10 as built'),
 'C06-time-lookup-isclose': ('a query time a microsecond beside a sample / large time stamps', 'initially missed; caught after near-miss absent times and a seconds-of-week table were added'),
 'C06-jacobian-buffers-on-instance': ('lever-arm Position followed by an arm-less Position on the same InsErrorModel', 'initially missed; caught after one error model per mode served all sources of a case'),
 'C14-walk-sqrt-dt-outside-cumsum': ('bias walk with non-uniform sampling', 'caught by C14 (impulse gains) as built'),
 'C14-update-bias-by-position': ('enabled bias axes that are not a prefix of x,y,z', 'caught by C14 as built'),
 'C18-resample-snaps-with-isclose': ('requested times very close to (not at) original stamps / large time base', 'initially missed; caught after near-knot queries, a 2^-11 s shift and a seconds-of-week base were added'),
 'C18-to180-fmod': ('a negative odd multiple of 180', 'caught by C18 as built'),
 'C12-fb-window-starts-at-first-increment': ('a measurement inside the first IMU interval / at the initial time', 'C09 caught it at once; C12 missed it until the mix with a fix AT the initial time was added'),
 'C12-ff-increments-batch-closed-slice': ('scale/misalignment state and increments passed to the feedforward filter', 'caught by C12 and C11 as built'),
 'C04-transport-rate-twice-alias': ('high ground speed at high latitude (rho comparable with Omega)', 'initially missed: the a-priori slack on DV<-DV was as large as the seeded error; slack removed (block is exact at first order)'),
 'C04-bgyro-dv-operand-order': ('gyro error acting while the vehicle moves', 'caught by C04 as built'),
 'C01-tiny-rotation-identity': ('sampling interval near 1 ms (per-step frame rotation below 1e-7 rad)', 'caught by C01 as built (convergence check on the decimal ladder)'),
 'C01-dt-rounded-to-microseconds': ('a sampling interval that is not a whole number of microseconds (1/128 s)', 'initially missed in quick (decimal ladder); caught after the dyadic ladder 1/32..1/512 s was put on every second lattice point'),
 'C03-accel-increment-bd-sign': ('increment type with angular acceleration not parallel to specific force', 'initially missed: the error is O(dt^2) per unit time, inside the interpolation error of the rate readings; caught after the order relation (accel increments one order better than rate readings when velocity is supplied) was derived and asserted'),
 'C03-position-only-wrong-frame-matrix': ('position-only input form with non-zero velocity and non-trivial time', 'caught by C03 as built'),
 'C05-position-to-attitude-coupling': ('large position correction / high latitude', 'caught by C05 (correction vs written-out convention) as built'),
 'C05-mat-to-rph-roll-quadrant': ('|roll| > 90 deg', 'caught by C05 and C17 as built'),
 'C07-overwritten-HP-buffer': ('n_obs == 1 or n_states == 1', 'caught by C07 as built'),
 'C07-residual-aliases-z': ('prior mean exactly zero and z a contiguous float array', 'caught by C07 (input snapshots) as built'),
 'C08-tiny-Q-treated-as-zero': ('all entries of Q below 1e-8', 'initially missed (Q of order 1 and 1e-6); caught after a 1e-12 noise scale was added'),
 'C08-diagonal-F-geometric-mean': ('diagonal F with different entries and correlated Q', 'caught by C08 (composition law) as built'),
 'C15-increment-sculling-index-slip': ('increment type, specific force changing between samples while rotating', 'caught by C15 as built'),
 'C15-positional-column-extraction': ('Imu table with non-canonical column order or an extra leading column', 'initially missed; caught after column layouts (accel first, extra leading column, interleaved) were added; C01 shuffles the increments layout too'),
 'C16-ecef-to-lla-high-latitude-branch': ('latitude above ~56.8 deg', 'caught by C16 as built'),
 'C16-perturb-lla-in-place': ('lla passed as a writable float ndarray', 'caught by C16 and C19 as built'),
 'C17-zero-rotation-stale-offdiagonals': ('rotation vector exactly zero with a reused output buffer', 'caught by C17 as built (norm 0 is in the alphabet and the buffer is reused)'),
 'C17-mat-from-rph-memo-aliases-caller': ('the same float array passed in consecutive single calls, rewritten in place', 'initially missed (fresh lists per call); caught after a caller-owned work array loop was added'),
 'C19-stale-fir-filter-cache': ('two smoothing calls whose parameters collide in the filter length but not in the cut-off', 'initially missed twice: first no colliding parameters in the catalogue, then the in-process baseline primed the cache itself; caught after first calls of g in "after f" processes were compared with first calls in pristine processes'),
 'C19-work-array-dtype-follows-F': ('integer-typed F with fractional Q', 'C08 caught it at once; C19 missed it until integer-valued argument forms were added'),
})

NOTES.update({
 'C09-body-rate-from-scaled-increment': ('a lever-arm NedVelocity sample stamped exactly on an IMU sample (0/0 body rate)', 'initially missed (no lever arms in the E2 alphabet); caught after lever-arm sensors were added'),
 'C09-loop-bound-off-by-one': ('a batch boundary on the last-but-one IMU sample', 'caught by C09 as built'),
 'C10-one-epoch-per-interval': ('two distinct stamps between the same two trajectory rows', 'caught by C10 as built (the defect this repository had before its fix commit)'),
 'C10-loop-stops-one-interval-early': ('a schedule that visits the last-but-one row', 'caught by C10 as built'),
 'C02-zero-rotation-early-out-stale-matrix': ('an exactly-zero gyro increment following a non-zero one inside one multi-row call', 'initially missed; caught after the dead-band increments kind (rows with theta == 0) was added'),
 'C02-leading-increment-at-current-time-dropped': ('repeated time stamps / a first stamp equal to the start time', 'initially missed; caught after the duplicate-stamp increments kind was added'),
 'C12-bias-update-state-number-as-axis': ('feedback filter with a model whose bias axes are not a prefix of x,y,z', 'C14 kills it; C12 missed it until the subset-axes model class was added'),
 'C12-fb-plain-average-of-endpoints': ('heading crossing +-180 deg inside covariance steps (southbound weave)', 'initially missed; caught after the southbound-weave motion was added (also to C11)'),
 'C11-step-not-resnapped-forced-advance': ('time_step shorter than the trajectory sampling interval', 'initially missed; caught after time_step 0.02 s (below the 0.05 s rows) was added'),
 'C11-window-lower-bound-side-right': ('a measurement stamped exactly on the first trajectory row', 'initially missed by C11 (no fix on row 0; C10 kills it); caught after a fix on the first row was added'),
 'C13-perturb-lla-ecef-path-long-displacement': ('2D feedback mode with a position correction above ~638 m', 'initially missed; caught after kilometre-size position fixes were added'),
 'C13-measurement-dropna': ('2D mode with NaN in the vertical column of NedVelocity data (horizontal-only fixes)', 'initially missed; caught after horizontal-only velocity fixes and the use-once oracle in 2D were added'),
 'C14-class-level-estimate-arrays': ('two model objects in one process and an update on a model that was not reset', 'caught by C14 as built'),
 'C14-parameter-table-isclose': ('parameter values below 1e-8 / 1e-5 relative', 'initially missed; caught after the nano-scale value set was added'),
 'C06-position-lever-gated-by-rates': ('Position with lever arm and a pva without body rates', 'caught by C06 as built'),
 'C06-noise-matrix-cached-per-object': ('one measurement object evaluated under both altitude modes', 'initially missed; caught after one object was evaluated under both modes in both orders (C12 re-run sequences now alternate modes too)'),
 'C04-phi-dr-block-sign': ('a north position error on a slow vehicle; resolution 1e-11 rad/s per metre', 'caught by C04 as built'),
 'C04-gravity-hoisted-to-sea-level': ('high altitude and a tilt error', 'caught by C04 as built'),
 'C18-resample-nothing-to-interpolate-shortcut': ('requested grid with as many stamps and the same ends as the table but different interior', 'initially missed; caught after the same-count/same-ends query and the jittered pair were added'),
 'C18-denser-test-mean-vs-median': ('a dense table with a recording gap against a sub-sampling of a dense stretch', 'caught by C18 as built (clustered sub-samplings)'),
})

base = '/verif/seeded'
for d in sorted(os.listdir(base)):
    p = os.path.join(base, d, 'meta.json')
    if not os.path.exists(p):
        continue
    m = json.load(open(p))
    if d in NOTES:
        m['needs_to_manifest'], m['detection_history'] = NOTES[d]
    m['origin'] = 'written by a fresh sub-agent that saw only the property text and its own scratch worktree'
    json.dump(m, open(p, 'w'), indent=1)
    print('ok' if d in NOTES else 'NO NOTES', d)

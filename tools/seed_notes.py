#!/venv/bin/python
"""Adds the hand-written 'needs_to_manifest' / 'detection_history' fields to /verif/seeded/*/meta.json."""
import json, os
NOTES = {
 'C01-sin-lat-sign-lost-south': ('any southern-hemisphere start (sin(lat) recovered through sqrt loses its sign in the kernel); northern tests unaffected', 'caught by C01 as first built'),
 'C01-stale-lat-alt-later-calls': ('increments fed in two or more consecutive integrate() calls plus a change of altitude/latitude (kernel reads lla[i] instead of lla[i+offset])', 'C02 caught it at once (history dependence); C01 missed it because its driver made one integrate call - C01 now integrates every rung in ~1 s chunks'),
 'C02-kernel-lat-cache': ('sub-millimetre north-south motion per IMU sample together with a call history other than one single call (latitude terms cached inside the kernel with a 5e-9 deg hysteresis)', 'initially missed (C02 tables moved 40 m/s); caught after the creeping-platform increments kind "slow" was added to the C02 alphabet'),
 'C02-lazy-setpva-sync': ('the interleaving set_pva -> predict with no integrate in between (lazy buffer sync skipped by predict)', 'caught by C02 as first built'),
 'C03-gravitation-abs-sin': ('any southern latitude (north component of the centrifugal term loses its sign)', 'caught by C03 (moving lattice and rest lattice) and by C16 as first built'),
 'C03-latitude-iteration-off-by-one': ('initial-position+velocity input form AND sustained meridional speed of hundreds of m/s for about an hour (one fixed-point pass fewer)', 'initially missed (8 s horizons); caught after the 1 h / 280 m/s meridional family was added to C03 with the library\'s documented ACCURACY=0.01 m as floor'),
 'C04-propagate-equispaced-assumption': ('a trajectory with unequal sampling intervals passed to propagate_errors', 'initially missed (uniform ladders); caught after the propagate_errors ladder switched to alternating 0.5dt/1.5dt stamps'),
 'C04-rate-n-sign-lost-south': ('any southern latitude (earth.rate_n is used only by the error model)', 'caught by C04 (PHI/DV blocks at lat -80) and C16 (parity) as first built'),
 'C05-correct-east-radius': ('non-zero altitude and latitude away from the equator', 'caught by C05 (correction vs written-out convention) as first built'),
 'C05-heading-jacobian-no-cos-pitch': ('substantial pitch, heading away from 0/180 deg, east tilt', 'caught by C05 and C17 as first built'),
 'C06-body-velocity-2d-column-row': ('with_altitude=False, BodyVelocity, non-level attitude and horizontal speed together', 'caught by C06 as first built'),
 'C06-lever-zero-component-dropped': ('a lever arm with at least one exactly-zero component', 'initially missed (all lever arms of the alphabet were generic); caught after the structured arms (1.5,0,-0.8) and (0,0,-2) were added'),
 'C07-S-jitter': ('innovation covariance of small absolute scale (R ~ 1e-8)', 'caught by C07 (exact rational posterior) as first built'),
 'C07-joseph-diag-R': ('measurement noise matrix with off-diagonal entries', 'caught by C07 as first built'),
 'C08-block-inherits-int-dtype': ('integer-typed F together with non-integer Q', 'initially missed (all-float inputs); caught after the int-dtype argument form and fractional Q values were added'),
 'C08-step-doubling-order': ('||F||_1 dt > 16 with non-zero Q', 'initially missed (||F|| dt capped at 12); caught after the cap was raised to 64 (sharpness now follows the measured conditioning)'),
 'C09-cursor-per-sensor': ('two or more sensors sharing a time stamp', 'caught by C09 as first built'),
 'C09-hoisted-min-interval': ('an IMU gap longer than time_step, or time_step <= IMU interval on a non-dyadic grid', 'caught by C09 (cursor-state repeat = livelock) as first built'),
 'C10-global-step-clamp': ('non-uniform sampling with time_step below the largest gap', 'caught by C10 (step-length bound) as first built'),
 'C10-unique-dropped': ('two measurement objects sharing a time stamp', 'caught by C10 (use-exactly-once via spy log / innovation rows) as first built'),
 'C11-noise-intensity-order': ('gyro bias_walk enabled together with accel noise enabled', 'caught by C11 as first built'),
 'C11-epochs-not-deduplicated': ('two measurement objects sharing a time stamp', 'caught by C11, C09 and C10 as first built'),
 'C12-inplace-reset-keeps-misalignment': ('model with an off-diagonal scale_misal term, a prior run that estimated it, and reuse of the same object', 'caught by C12 (re-run sequences) as first built'),
 'C12-per-measurement-feedback-stale-pva': ('two sensors sharing a time stamp in the feedback filter', 'initially missed (the equivalence scenarios used disjoint stamps); caught after the shared-stamp mix "PVs" was added (and made part of every quick run)'),
 'C13-altitude-row0': ('history integrate -> set_pva(new altitude) -> integrate/predict in 2D mode', 'caught by C13 and C02 as first built'),
 'C13-late-vd-zeroing': ('2D mode, non-zero initial VD, no set_pva on row 0 before the first step', 'caught by C13 (init_vd=4.5 configurations) and C02 as first built'),
 'C14-scale-misal-flag-any': ('enabled scale/misalignment terms all in output row x (7 of 511 masks)', 'caught by C14 (complete mask enumeration) as first built'),
 'C14-stale-cached-inverse': ('history correct -> update -> correct on one model object', 'initially missed (only update -> correct was exercised); caught after the E1 exploration over {update, correct, reset} sequences was added'),
 'C15-rate-sculling-operand-order': ('rate-type sensor with angular acceleration under specific force', 'caught by C15 as first built'),
 'C15-unequal-interval-coeff': ('increment-type sensor with irregular stamps and changing rate', 'caught by C15 as first built'),
 'C16-gravitation-south-sign': ('any southern latitude', 'caught by C16 as first built'),
 'C16-lla-difference-altitude': ('points well above the surface (error ~ alt/R)', 'caught by C16 as first built, but marginally at 10 km; the first-order ladder now also runs at 100 km'),
 'C17-phi-roll-index-slip': ('roll noticeably different from pitch, heading with non-zero sine', 'caught by C17 and C05 as first built'),
 'C17-rotvec-k2-near-pi': ('rotation vector with norm within ~1e-8 of pi (ZeroDivisionError) or close to it', 'initially a HARNESS error (exceptions of compiled code carry no Python frame of the repository); C17/C16 now convert exceptions of numba entry points into violations, and the norm alphabet approaches pi as pi(1-10^-k)'),
 'C18-attitude-sign-twice': ('two tables of different rates, denser one first, non-zero attitude difference', 'caught by C18 (antisymmetry and reference algebra) as first built'),
 'C18-resample-rph-column-order': ('attitude columns in a non-canonical relative order, evaluation off the original rows', 'caught by C18 (column-subset/permutation cases of resample) as first built'),
}
base = '/verif/seeded'
for d in sorted(os.listdir(base)):
    p = os.path.join(base, d, 'meta.json')
    if not os.path.exists(p):
        continue
    m = json.load(open(p))
    if d in NOTES:
        m['needs_to_manifest'], m['detection_history'] = NOTES[d]
    m['origin'] = 'written by a fresh sub-agent that saw only the property text and its own scratch worktree'
    json.dump(m, open(p, 'w'), indent=1)
    print('ok' if d in NOTES else 'NO NOTES', d)

#!/venv/bin/python
"""Second-wave prompts: same as make_prompts.py plus a list of ideas already used (so that the new
changes explore other mechanisms). Usage: tools/make_prompts2.py <ID> ..."""
import json, subprocess, sys, os, re
sys.path.insert(0, '/verif/tools')
src = open('/verif/tools/make_prompts.py').read()
T = re.search(r'T = """(.*?)"""', src, re.S).group(1)
props = {}
for l in open('/verif/properties.jsonl'):
    p = json.loads(l); props[p['id']] = p
used = {}
for d in sorted(os.listdir('/verif/seeded')):
    mp = os.path.join('/verif/seeded', d, 'meta.json')
    if os.path.exists(mp):
        m = json.load(open(mp))
        used.setdefault(m['breaks_property'], []).append('%s (needs: %s)' % (d.split('-', 1)[1].replace('-', ' '), m.get('needs_to_manifest', '?')))
EXTRA = """

Ideas that have ALREADY been used for this property by earlier contributors - do NOT repeat them or close variants; look for different code sites, different mechanisms and different trigger conditions (other modes/branches/argument forms, other multi-step histories, other numeric regimes, interactions between two functions):
{used}
Also avoid the generic 'sign lost in the southern hemisphere via sqrt(1-cos^2)' idea and 'np.unique dropped' idea, which have been used several times across properties."""
for pid in sys.argv[1:]:
    p = props[pid]
    wt = '/tmp/wt-' + pid
    subprocess.run(['git', '-C', '/repo', 'worktree', 'add', '-q', '--detach', wt, 'HEAD'], check=True)
    text = T.format(wt=wt, pid=pid, title=p['title'], statement=p['statement'], quant=p['quantifier']['text'])
    text = text.replace('\n\nYour task:', EXTRA.format(used='\n'.join('  - ' + u for u in used.get(pid, ['(none)']))) + '\n\nYour task:', 1)
    text = text.replace('/tmp/out-%s' % pid, '/tmp/out2-%s' % pid)
    open('/tmp/prompt-%s.txt' % pid, 'w').write(text)
    print('ready', pid)

#!/bin/bash
# Regenerates every evidence file with the quick tier on /repo (run on a quiet machine), validates them
# against the schema and prints a summary table.
cd /verif
for i in $(seq -w 1 19); do
  out=$(VERIF_SEED=${VERIF_SEED:-0} ./check C$i --tier quick 2>&1); rc=$?
  echo "C$i rc=$rc $(echo "$out" | tail -1)"
  echo "$out" | grep -E "^VIOLATION|^KNOWN-FINDING|^HARNESS" | cut -c1-160
done
python3-vt - <<'PY'
import json, jsonschema, glob
sch = json.load(open('/root/.vp/EVIDENCE.schema.json'))
for f in sorted(glob.glob('/verif/evidence/C*.json')):
    jsonschema.validate(json.load(open(f)), sch)
jsonschema.validate(json.load(open('/verif/MANIFEST.json')), json.load(open('/root/.vp/MANIFEST.schema.json')))
print('evidence + manifest validate')
PY
